/* C04: cost flag yields exactly the minimal-cost translation(s); cost fields add up.
   Rule costs are symbolic (0..maxcost), so ties and both strict orders are decided by the solver. */
#include "ph.h"
static long ocost[O_MAXT]; static char ocost_done[O_MAXT];
static long o_cost (int t)
{
  long c = 0; int k;
  if (ocost_done[t]) return ocost[t];
  if (o_t[t].kind == OT_ANODE) { c = G.rule[o_t[t].rule].cost; for (k = 0; k < o_t[t].nch; k++) c += o_cost (o_t[t].ch[k]); }
  ocost[t] = c; ocost_done[t] = 1;
  return c;
}
static long rule_cost_by_name (const char *name)
{
  int r;
  for (r = 0; r < G.nrule; r++) if (G.rule[r].anode && strcmp (G.rule[r].anode, name) == 0) return G.rule[r].cost;
  sx_assert (0, "abstract node name belongs to a rule");
  return 0;
}
static long sub_cost (struct yaep_tree_node *n)
{
  if (n->type == YAEP_ANODE) return n->val.anode.cost;
  if (n->type == YAEP_ALT) return sub_cost (n->val.alt.node);
  return 0;
}
static int nvisit;
static void check_fields (struct yaep_tree_node *n, int depth)
{
  int k; long sum;
  if (depth > 40 || ++nvisit > 3000) return;
  if (n->type == YAEP_ALT) { struct yaep_tree_node *a; for (a = n; a; a = a->val.alt.next) check_fields (a->val.alt.node, depth + 1); return; }
  if (n->type != YAEP_ANODE) return;
  sum = rule_cost_by_name (n->val.anode.name);
  for (k = 0; n->val.anode.children[k]; k++) { sum += sub_cost (n->val.anode.children[k]); check_fields (n->val.anode.children[k], depth + 1); }
  sx_assert (n->val.anode.cost == sum, "cost field = own rule cost + cost fields of the children subtrees");
}
void harness (void)
{
  struct pconf c; struct pres r; int bad, i, k, s, l, conf, rr, maxcost = (int) sx_param ("maxcost", 7);
  long min;
  p_setup ();
  if (sx_param ("symcost", 1))
    for (rr = 0; rr < G.nrule; rr++) if (G.rule[rr].anode) G.rule[rr].cost = sx_range ("cost", 0, maxcost);
  o_translations ();
  sx_assume (o_nres > 0);
  conf = sx_choice ("conf", 12);
  c.la = conf % 3; c.one = (conf / 3) % 2; c.use_free = (conf / 6) % 2; c.cost = 1; c.rec = (int) sx_param ("rec", 0); c.match = 0;
  p_run (&c, 1, &r);
  sx_observe ("rc", r.rc); sx_observe ("amb", r.amb); t_observe (r.root, 0);
  sx_assert (r.rc == 0 && p_nerr == 0 && r.root != NULL, "sentence parses");
  if (r.root != NULL && !o_overflow)
    {
      bad = t_wellformed (r.root, !c.one);
      sx_observe ("bad", bad);
      sx_assert (bad == 0, "result well-formed (no ALT when one parse is requested)");
      if (bad == 0)
        {
          min = o_cost (o_res[0]);
          for (i = 1; i < o_nres; i++) { long ci = o_cost (o_res[i]); min = sx_ite (ci < min, ci, min); }
          t_check_cost = 0;
          d_reset (); d_denote (r.root, 0, &s, &l);
          sx_observe ("ndenoted", l);
          if (!d_overflow)
            {
              for (k = 0; k < l; k++)
                {
                  int in = 0;
                  for (i = 0; i < o_nres; i++) in |= d_match (d_list[s + k], o_res[i]) & (o_cost (o_res[i]) == min);
                  sx_assert (in, "every denoted tree is a translation of minimal total cost");
                }
              if (c.one) sx_assert (l == 1, "one parse requested: exactly one tree");
              else for (i = 0; i < o_nres; i++) sx_assert ((o_cost (o_res[i]) != min) | t_match (r.root, o_res[i], 0), "all parses requested: every minimal-cost translation is denoted");
            }
          nvisit = 0; check_fields (r.root, 0);
          sx_assert (sub_cost (r.root) == min, "root cost is the minimum over all translations");
        }
    }
  p_done (&r, &c);
  p_witness ();
}
