/* C06, C07, C08: syntax error reporting and error recovery.  Assertion labels carry the property id;
   each check counts only its own labels. */
#include "ph.h"

/* total loss is always covered: yaep adds `$S : error $eof' unless the start symbol has the rule `error' alone */
static int implicit_rule (void)
{
  int r;
  for (r = 0; r < G.nrule; r++)
    if (G.rule[r].lhs == g_start () && G.rule[r].n == 1 && G.sym[G.rule[r].rhs[0]].kind == SK_ERR) return 0;
  return 1;
}
/* oracle sequence := tokens[0..q) [error] tokens[r..e) */
static void make_seq (int q, int with_error, int r, int e)
{
  int i; seqn = 0;
  for (i = 0; i < q; i++) { p_map[seqn] = i; seq[seqn++] = p_sym[i]; }
  if (with_error) { p_map[seqn] = -1; seq[seqn++] = g_errsym (); }
  for (i = r; i < e; i++) { p_map[seqn] = i; seq[seqn++] = p_sym[i]; }
}

static struct yaep_tree_node *seen_terms[64]; static int nseen_terms;
static void collect_terms (struct yaep_tree_node *n, int depth)
{
  int k;
  if (n == NULL || depth > 40) return;
  if (n->type == YAEP_TERM) { for (k = 0; k < nseen_terms; k++) if (seen_terms[k] == n) return; if (nseen_terms < 64) seen_terms[nseen_terms++] = n; }
  else if (n->type == YAEP_ANODE) for (k = 0; n->val.anode.children[k]; k++) collect_terms (n->val.anode.children[k], depth + 1);
  else if (n->type == YAEP_ALT) { collect_terms (n->val.alt.node, depth + 1); collect_terms (n->val.alt.next, depth + 1); }
}

/* repairs: up to kmax disjoint segments (possibly empty, possibly adjacent), total replaced == total */
static int seg_a[8], seg_b[8];
static int count_err (int d) { const struct dtree *D = &d_t[d]; int k, c = D->n->type == YAEP_ERROR; for (k = 0; k < D->nch; k++) c += count_err (D->ch[k]); return c; }
static struct yaep_tree_node *the_root; static int dstart, dlen;
static int explained_all, single_count, single_a;
static int cover[700];           /* per denoted tree: explained by some repair (symbolic 0/1) */
static int cover_s[700];         /* same, comparing TERM nodes by code only */
static void try_repair (int k)
{
  int i, s, pos = 0, d;
  seqn = 0;
  for (s = 0; s < k; s++)
    {
      for (i = pos; i < seg_a[s]; i++) { p_map[seqn] = i; seq[seqn++] = p_sym[i]; }
      p_map[seqn] = -1; seq[seqn++] = g_errsym ();
      pos = seg_b[s];
    }
  for (i = pos; i < p_n; i++) { p_map[seqn] = i; seq[seqn++] = p_sym[i]; }
  o_translations ();
  if (o_nres == 0 || o_overflow) return;
  for (d = 0; d < dlen; d++)
    {
      int in = 0, ins = 0;
      for (i = 0; i < o_nres; i++) in |= d_match (d_list[dstart + d], o_res[i]);
      t_ignore_attr = 1;
      for (i = 0; i < o_nres; i++) ins |= d_match (d_list[dstart + d], o_res[i]);
      t_ignore_attr = 0;
      cover[d] |= in; cover_s[d] |= ins;
      if (k == 1 && dlen == 1 && in) { single_count++; single_a = seg_a[0]; }   /* concrete when attributes pin positions; see below */
    }
}
static void enum_repairs (int k, int kmax, int from, int left)
{
  int a, len;
  for (a = from; a <= p_n; a++)
    for (len = 0; len <= left && a + len <= p_n; len++)
      {
        seg_a[k] = a; seg_b[k] = a + len;
        if (len == left) try_repair (k + 1);                       /* budget used up: a complete repair */
        if (k + 1 < kmax) enum_repairs (k + 1, kmax, a + len, left - len);
      }
}


/* symbolic grammar family with `error' (DESIGN.md section 5): up to maxr rules over {S, A, a, b, error} */
static const char *const sg_names[4] = { "n0", "n1", "n2", "n3" };
static void build_sg (void)
{
  int maxr = (int) sx_param ("maxr", 2), maxl = (int) sx_param ("maxl", 2), r, k, nr; struct grammar *t;
  memset (&G, 0, sizeof G);
  G.id = "SGE"; G.nsym = 5;
  G.sym[0].name = "a"; G.sym[0].kind = SK_TERM; G.sym[0].code = 'a';
  G.sym[1].name = "b"; G.sym[1].kind = SK_TERM; G.sym[1].code = 'b';
  G.sym[2].name = "error"; G.sym[2].kind = SK_ERR; G.sym[2].code = -1;
  G.sym[3].name = "S"; G.sym[3].kind = SK_NT; G.sym[3].code = -1;
  G.sym[4].name = "A"; G.sym[4].kind = SK_NT; G.sym[4].code = -1;
  nr = sx_param ("nrules", -1) > 0 ? (int) sx_param ("nrules", -1) : 1 + sx_choice ("nrules", maxr);
  G.nrule = nr;
  for (r = 0; r < nr; r++)
    {
      struct grule *R = &G.rule[r];
      R->lhs = r == 0 ? 3 : (r == 1 && sx_param ("lhs1", -1) >= 0) ? 3 + (int) sx_param ("lhs1", -1) : 3 + sx_choice ("lhs", 2);
      R->n = (r == 0 && sx_param ("len0", -1) >= 0) ? (int) sx_param ("len0", -1) : (r == 1 && sx_param ("len1", -1) >= 0) ? (int) sx_param ("len1", -1) : sx_choice ("rhslen", maxl + 1);
      for (k = 0; k < R->n; k++) R->rhs[k] = sx_choice ("rhs", 5);
      R->anode = sg_names[r]; R->cost = 1; R->ntr = R->n; for (k = 0; k < R->n; k++) R->tr[k] = k;
    }
  t = yaep_create_grammar (); sx_assume (t != NULL);
  if (g_define (t, 1) != 0) sx_end_path ();           /* only grammars accepted under strict checking */
  yaep_free_grammar (t);
}

void harness (void)
{
  struct pconf c; struct pres r; int ok, conf, i, ep = -1, n, total, bad, m;
  if (sx_param ("sg", 0)) { build_sg (); p_input_all ((int) sx_param ("len", 2), -1); p_to_seq (); }
  else p_setup ();
  n = p_n;
  ok = o_sentence ();
  if (sx_param ("only_errors", 1)) sx_assume (!ok);
  conf = sx_choice ("conf", 12);
  c.la = conf % 3; c.rec = (conf / 3) % 2; c.one = (conf / 6) % 2; c.cost = 0; c.use_free = 0;
  m = c.rec ? sx_choice ("match", (int) sx_param ("maxmatch", 4)) + 1 : 0;
  c.match = m;
  /* first position p such that tokens[0..p] is not a prefix of a sentence (`error' an ordinary terminal) */
  if (!ok)
    {
      for (ep = 0; ep < n; ep++) { make_seq (ep + 1, 0, 0, 0); if (!o_viable_prefix ()) break; }
    }
  p_to_seq ();
  p_run (&c, 1, &r);
  sx_observe ("rc", r.rc); sx_observe ("amb", r.amb != 0); p_observe_errors (); t_observe (r.root, 0);
  sx_assert (r.rc == 0, "C07: parse returns 0");
  sx_assert ((p_nerr >= 1) == !ok, "C07: syntax_error called at least once iff the input is not a sentence");
  if (p_nerr > P_MAXERR) { sx_assert (0, "C06: more syntax_error calls than tokens"); sx_end_path (); }
  if (!ok && p_nerr >= 1)
    {
      sx_assert (p_err[0] == ep, "C06: first error token is the first token that cannot continue any sentence");
      if (p_err[0] >= 0 && p_err[0] <= n)
        sx_assert (p_err_attr[0] == (p_err[0] < n ? p_attr[p_err[0]] : 0), "C06: error token attribute belongs to the error token");
      if (!c.rec)
        {
          sx_assert (p_nerr == 1, "C06: recovery off: exactly one call");
          sx_assert (p_ign[0] == -1 && p_rec[0] == -1 && p_ign_attr[0] == 0 && p_rec_attr[0] == 0, "C06: recovery off: recovery arguments are (-1, NULL, -1, NULL)");
        }
      else
        for (i = 0; i < p_nerr; i++)
          {
            int in_range = 0 <= p_ign[i] && p_ign[i] <= p_rec[i] && p_rec[i] <= n;
            sx_assert (in_range, "C06: 0 <= first ignored <= first recovered <= token count");
            sx_assert (0 <= p_err[i] && p_err[i] <= n, "C06: error token inside the input");
            if (in_range)
              {
                sx_assert (p_ign_attr[i] == (p_ign[i] < n ? p_attr[p_ign[i]] : 0), "C06: attribute of the first ignored token");
                sx_assert (p_rec_attr[i] == (p_rec[i] < n ? p_attr[p_rec[i]] : 0), "C06: attribute of the first recovered token");
              }
            if (0 <= p_err[i] && p_err[i] <= n) sx_assert (p_err_attr[i] == (p_err[i] < n ? p_attr[p_err[i]] : 0), "C06: attribute of the error token");
            if (i > 0) sx_assert (p_err[i] > p_err[i - 1], "C06: error tokens strictly increase");
          }
    }
  if (c.rec)
    {
      sx_assert (r.root != NULL, "C07: recovery on: root non-NULL");
      if (r.root != NULL)
        {
          bad = t_wellformed (r.root, !c.one);
          if (bad == 0)
            { /* cheap check for inputs of any length: a TERM node carries the attribute of some token with the node's code */
              int k, q; nseen_terms = 0; collect_terms (r.root, 0);
              for (k = 0; k < nseen_terms; k++)
                {
                  int okk = 0;
                  for (q = 0; q < n; q++) okk |= (seen_terms[k]->val.term.code == p_code[q]) & ((long) seen_terms[k]->val.term.attr == p_attr[q]);
                  sx_assert (okk, "C07: every TERM node carries code and attribute of one input token");
                }
            }
          sx_observe ("bad", bad);
          sx_assert (bad == 0, "C07: tree well-formed");
          if (bad == 0 && !ok && p_nerr >= 1 && p_nerr <= 3 && p_n > (int) sx_param ("repair_maxlen", 8)) sx_reach ("C07: input longer than repair_maxlen (repair enumeration skipped)");
          if (bad == 0 && !ok && p_nerr >= 1 && p_nerr <= 3 && p_n <= (int) sx_param ("repair_maxlen", 8))
            {
              int sane = 1;
              total = 0;
              for (i = 0; i < p_nerr; i++) { if (!(0 <= p_ign[i] && p_ign[i] <= p_rec[i] && p_rec[i] <= n)) sane = 0; total += p_rec[i] - p_ign[i]; }
              if (sane)
                {
                  t_check_cost = 1;
                  d_reset (); d_denote (r.root, 0, &dstart, &dlen);
                  if (!d_overflow && dlen <= 700 && dlen > 0)
                    {
                      for (i = 0; i < dlen; i++) cover[i] = cover_s[i] = 0;
                      single_count = 0; the_root = r.root;
                      { int kmax = p_nerr + 1, e; for (i = 0; i < dlen; i++) { e = count_err (d_list[dstart + i]); if (e > kmax) kmax = e; }   /* error nodes are not always translated: at least one segment more than callbacks */
                        /* as many segments as the tree has error nodes: one call may stand for several of them (secondary recovery states) */
                        if (kmax > (int) sx_param ("repair_kmax", 4)) { sx_reach ("C07: more error segments than repair_kmax (repair enumeration skipped)"); kmax = 0; }
                        if (g_errsym () >= 0 && kmax > 0) enum_repairs (0, kmax, 0, total); else if (kmax == 0) for (i = 0; i < dlen; i++) cover[i] = cover_s[i] = 1; }
                      /* total loss through the implicit rule: everything replaced, translation is the empty node */
                      if (implicit_rule () && total == n)
                        for (i = 0; i < dlen; i++) { cover[i] |= (d_t[d_list[dstart + i]].n->type == YAEP_NIL); cover_s[i] |= (d_t[d_list[dstart + i]].n->type == YAEP_NIL); }
                      for (i = 0; i < dlen; i++)
                        {
                          sx_assert (cover_s[i], "C07: tree is a translation of the input with the ignored tokens replaced by error");
                          sx_assert (!cover_s[i] | cover[i], "C07: TERM nodes of a recovered tree carry the attributes of the tokens they derive");
                        }
                      if (p_nerr == 1 && dlen == 1 && single_count == 1 && total > 0)
                        sx_assert (p_ign[0] == single_a && p_rec[0] == single_a + total, "C07: single call, unique single-segment repair: reported range is that segment");
                    }
                }
            }
        }
    }
  /* C08: the first recovery ignores no more tokens than any simple recovery */
  if (c.rec && !ok && p_nerr >= 1 && ep >= 0 && 0 <= p_ign[0] && p_ign[0] <= p_rec[0] && p_rec[0] <= n)
    {
      int best = 1000, q, rr;
      if (implicit_rule ()) best = n;
      if (g_errsym () >= 0)
        for (q = 0; q <= ep && q <= n; q++)
          {
            make_seq (q, 1, 0, 0);
            if (!o_viable_prefix ()) continue;             /* error is not expected at q */
            for (rr = ep; rr <= n; rr++)
              {
                int costc = (ep - q) + (rr - ep), good;
                if (costc >= best) break;
                if (rr + m <= n) { make_seq (q, 1, rr, rr + m); good = o_viable_prefix (); }
                else { make_seq (q, 1, rr, n); good = o_sentence (); }
                if (good) { best = costc; break; }
              }
          }
      sx_observe ("best", best);
      if (best < 1000) sx_assert (p_rec[0] - p_ign[0] <= best, "C08: first recovery ignores a minimal number of tokens");
    }
  p_done (&r, &c);
  p_witness ();
}
