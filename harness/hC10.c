/* C10: yaep_read_grammar succeeds iff the grammar is well-formed; error codes name real defects.
   The grammar is built from symbolic choices; the oracle decides well-formedness by definition. */
#include <stdlib.h>
#include <string.h>
#include <limits.h>
#include "sx.h"
#include "yaep.h"

#define MAXT 4
#define MAXR 12
#define MAXRHS 3
static const char *tname[MAXT]; static int tcode[MAXT]; static int nt;
struct xr { const char *lhs; const char *rhs[MAXRHS + 1]; int n; const char *anode; int cost; int has_tr; int tr[5]; };
static struct xr R[MAXR]; static int nr;
static int ti, ri;
static const char *const tpool[] = { "a", "b", "c", "error", "$S", "$eof" };
static const int cpool[] = { INT_MIN, -1, 0, 1, 2, 255, INT_MAX };
static int lazy_terms, nt_target;
static const char *rd_term (int *code)
{
  if (lazy_terms)
    { /* contents are chosen when yaep asks for them, so a definition that stops early does not multiply paths */
      if (ti >= nt_target) return NULL;
      tname[ti] = tpool[sx_choice ("tname", 6)]; tcode[ti] = cpool[sx_choice ("tcode", 7)]; nt = ti + 1;
    }
  if (ti >= nt) return NULL;
  *code = tcode[ti]; return tname[ti++];
}
static const char *rd_rule (const char ***rhs, const char **anode, int *cost, int **transl)
{
  struct xr *r;
  if (ri >= nr) return NULL;
  r = &R[ri++];
  r->rhs[r->n] = NULL;
  *rhs = r->rhs; *anode = r->anode; *cost = r->cost; *transl = r->has_tr ? r->tr : NULL;
  return r->lhs;
}

/* ---------------- oracle: defects present, by definition */
enum { D_NEG = 6, D_REPDECL = 5, D_REPCODE = 7, D_FIXED = 4, D_NORULES = 8, D_TERMLHS = 9, D_INCTRANS = 10, D_NEGCOST = 11, D_BADNUM = 12, D_REPNUM = 13, D_UNACC = 14, D_DERIV = 15, D_LOOP = 16 };
static int present[20];
#define MAXS 16
static const char *sname[MAXS]; static int sterm[MAXS]; static int ns;
static int sym (const char *n) { int i; for (i = 0; i < ns; i++) if (strcmp (sname[i], n) == 0) return i; sname[ns] = n; sterm[ns] = 0; return ns++; }
static int reserved (const char *n) { return strcmp (n, "$S") == 0 || strcmp (n, "$eof") == 0; }
static void oracle (int strict)
{
  int i, j, k, ch, lhs[MAXR], rs[MAXR][MAXRHS]; char nullable[MAXS], prod[MAXS], reach[MAXS], rel[MAXS][MAXS];
  memset (present, 0, sizeof present); ns = 0;
  for (i = 0; i < nt; i++)
    {
      present[D_NEG] |= (tcode[i] < 0);
      for (j = 0; j < i; j++) { if (strcmp (tname[i], tname[j]) == 0) present[D_REPDECL] = 1; present[D_REPCODE] |= (tcode[i] == tcode[j]); }
      if (strcmp (tname[i], "error") == 0 || reserved (tname[i])) present[D_FIXED] = 1;
      k = sym (tname[i]); sterm[k] = 1;
    }
  k = sym ("error"); sterm[k] = 1;
  if (nr == 0) present[D_NORULES] = 1;
  for (i = 0; i < nr; i++)
    {
      int seen[MAXRHS];
      if (reserved (R[i].lhs)) present[D_FIXED] = 1;
      lhs[i] = sym (R[i].lhs);
      if (sterm[lhs[i]] || strcmp (R[i].lhs, "$eof") == 0) present[D_TERMLHS] = 1;   /* the end marker is a terminal */
      for (j = 0; j < R[i].n; j++) { if (reserved (R[i].rhs[j])) present[D_FIXED] = 1; rs[i][j] = sym (R[i].rhs[j]); seen[j] = 0; }
      if (R[i].anode != NULL) present[D_NEGCOST] |= (R[i].cost < 0);
      if (R[i].has_tr)
        {
          int cnt = 0;
          for (j = 0; R[i].tr[j] >= 0; j++)
            {
              int el = R[i].tr[j]; cnt++;
              if (el >= R[i].n) { if (el != YAEP_NIL_TRANSLATION_NUMBER) present[D_BADNUM] = 1; }
              else { if (seen[el]) present[D_REPNUM] = 1; seen[el] = 1; }
            }
          if (R[i].anode == NULL && cnt >= 2) present[D_INCTRANS] = 1;
        }
    }
  if (nr == 0) return;
  /* nullable, productive */
  memset (nullable, 0, sizeof nullable); memset (prod, 0, sizeof prod); memset (reach, 0, sizeof reach); memset (rel, 0, sizeof rel);
  for (k = 0; k < ns; k++) if (sterm[k]) prod[k] = 1;
  for (ch = 1; ch;)
    {
      ch = 0;
      for (i = 0; i < nr; i++)
        {
          int an = 1, ap = 1;
          for (j = 0; j < R[i].n; j++) { if (!nullable[rs[i][j]]) an = 0; if (!prod[rs[i][j]]) ap = 0; }
          if (an && !nullable[lhs[i]]) { nullable[lhs[i]] = 1; ch = 1; }
          if (ap && !prod[lhs[i]]) { prod[lhs[i]] = 1; ch = 1; }
        }
    }
  /* A -> B if A : alpha B beta with alpha, beta nullable; loop if A ->+ A */
  for (i = 0; i < nr; i++)
    for (j = 0; j < R[i].n; j++)
      {
        int others = 1, q;
        for (q = 0; q < R[i].n; q++) if (q != j && !nullable[rs[i][q]]) others = 0;
        if (others && !sterm[rs[i][j]]) rel[lhs[i]][rs[i][j]] = 1;
      }
  for (k = 0; k < ns; k++) for (i = 0; i < ns; i++) for (j = 0; j < ns; j++) if (rel[i][k] && rel[k][j]) rel[i][j] = 1;
  reach[lhs[0]] = 1;
  for (ch = 1; ch;)
    {
      ch = 0;
      for (i = 0; i < nr; i++) if (reach[lhs[i]]) for (j = 0; j < R[i].n; j++) if (!reach[rs[i][j]]) { reach[rs[i][j]] = 1; ch = 1; }
    }
  for (k = 0; k < ns; k++)
    if (!sterm[k])
      {
        if (rel[k][k]) present[D_LOOP] = 1;
        if (!prod[k] && (strict || k == lhs[0])) present[D_DERIV] = 1;
        if (strict && !reach[k]) present[D_UNACC] = 1;
      }
}

static const char *const spool[] = { "S", "A", "a", "b", "B", "error", "$S", "$eof", "U" };
static int dummy_tok (void **attr) { *attr = NULL; return -1; }
static void dummy_err (int a, void *b, int c, void *d, int e, void *f) { (void) a; (void) b; (void) c; (void) d; (void) e; (void) f; }
static void *dummy_alloc (int n) { return malloc ((size_t) n); }

void harness (void)
{
  int family = (int) sx_param ("family", 0), strict, i, j, rc, any, prc, amb; struct grammar *g; struct yaep_tree_node *root;
  strict = sx_choice ("strict", 2);
  nt = 2; tname[0] = "a"; tcode[0] = 'a'; tname[1] = "b"; tcode[1] = 'b';
  nr = 1; R[0].lhs = "S"; R[0].n = 1; R[0].rhs[0] = "a"; R[0].anode = NULL; R[0].cost = 0; R[0].has_tr = 0;
  if (family == 0)
    { /* terminals: names from a pool with reserved names and duplicates, codes symbolic over all int */
      nt_target = sx_param ("nterm", -1) >= 0 ? (int) sx_param ("nterm", -1) : sx_choice ("nterm", MAXT + 1);
      lazy_terms = 1; nt = 0;
      nr = sx_choice ("nrules", 2);
      R[0].rhs[0] = "X"; R[0].n = sx_choice ("rhslen", 2);
    }
  else if (family == 1)
    { /* rule shapes over {S, A, a, b, B}: structure defects (loops, unproductive, unreachable) */
      int maxr = (int) sx_param ("maxr", 2), maxl = (int) sx_param ("maxl", 2), pool = (int) sx_param ("pool", 4);
      nr = sx_param ("nrules", -1) > 0 ? (int) sx_param ("nrules", -1) : sx_choice ("nrules", maxr) + 1;
      for (i = 0; i < nr; i++)
        {
          R[i].lhs = i == 0 ? "S" : spool[sx_choice ("lhs", 2)];
          R[i].n = (i == 0 && sx_param ("len0", -1) >= 0) ? (int) sx_param ("len0", -1) : sx_choice ("rhslen", maxl + 1);
          for (j = 0; j < R[i].n; j++) R[i].rhs[j] = spool[sx_choice ("rhs", pool)];
          R[i].anode = NULL; R[i].cost = 0; R[i].has_tr = 0;
        }
    }
  else if (family == 5)
    { /* three rules, the first two with at most one symbol, the third with two: a defect in the middle of a right-hand side
         (undeclared or unproductive symbol) in front of a symbol that is reachable only through this rule */
      int pool = (int) sx_param ("pool", 5);
      nr = 3;
      for (i = 0; i < nr; i++)
        {
          R[i].lhs = i == 0 ? "S" : spool[sx_choice ("lhs", 2)];
          R[i].n = i == 2 ? 2 : sx_choice ("rhslen", 2);
          for (j = 0; j < R[i].n; j++) R[i].rhs[j] = spool[sx_choice ("rhs", pool)];
          R[i].anode = NULL; R[i].cost = 0; R[i].has_tr = 0;
        }
    }
  else if (family == 2)
    { /* translation of one rule: abstract node or not, cost symbolic over all int, list elements symbolic */
      int len;
      R[0].n = sx_choice ("rhslen", 3);
      for (j = 0; j < R[0].n; j++) R[0].rhs[j] = j == 0 ? "a" : "b";
      R[0].anode = sx_choice ("anode", 2) ? "n" : NULL;
      R[0].cost = sx_int ("cost");
      R[0].has_tr = sx_choice ("has_tr", 2);
      len = R[0].has_tr ? sx_choice ("trlen", 4) : 0;
      for (j = 0; j < len; j++) { int v = sx_int ("tr"); sx_assume (v >= 0); R[0].tr[j] = v; }
      R[0].tr[len] = -1;
    }
  else if (family == 4)
    { /* chains: N0 : t | N1 | N0 N0 ; Ni : t | Ni+1 ; Nd : t or empty - nullability has to travel up the chain
         before the self-derivation of N0 (through its nullable sibling) becomes visible */
      static const char *const nn[6] = { "N0", "N1", "N2", "N3", "N4", "N5" };
      int d = 1 + sx_choice ("depth", (int) sx_param ("maxdepth", 4)), last_empty = sx_choice ("last_empty", 2), dup = sx_choice ("dup", 2), with_t = sx_choice ("with_t", 2);
      nr = 0;
      for (i = 0; i < d; i++)
        {
          if (with_t || i == 0) { R[nr].lhs = nn[i]; R[nr].n = 1; R[nr].rhs[0] = "a"; R[nr].anode = NULL; R[nr].cost = 0; R[nr].has_tr = 0; nr++; }
          R[nr].lhs = nn[i]; R[nr].n = 1; R[nr].rhs[0] = nn[i + 1]; R[nr].anode = NULL; R[nr].cost = 0; R[nr].has_tr = 0; nr++;
          if (i == 0 && dup) { R[nr].lhs = nn[0]; R[nr].n = 2; R[nr].rhs[0] = nn[0]; R[nr].rhs[1] = nn[0]; R[nr].anode = NULL; R[nr].cost = 0; R[nr].has_tr = 0; nr++; }
        }
      R[nr].lhs = nn[d]; R[nr].n = last_empty ? 0 : 1; R[nr].rhs[0] = "b"; R[nr].anode = NULL; R[nr].cost = 0; R[nr].has_tr = 0; nr++;
    }
  else
    { /* one special occurrence: reserved / terminal / undeclared name as left-hand side or in a right-hand side, first or later rule */
      int where = sx_choice ("where", 4), what = sx_choice ("what", 5);
      const char *nm = spool[4 + what];      /* B, error, $S, $eof, U */
      nr = 2;
      R[0].lhs = "S"; R[0].n = 2; R[0].rhs[0] = "a"; R[0].rhs[1] = "A";
      R[1].lhs = "A"; R[1].n = 1; R[1].rhs[0] = "b"; R[1].anode = NULL; R[1].cost = 0; R[1].has_tr = 0;
      if (where == 0) R[0].lhs = nm; else if (where == 1) R[0].rhs[1] = nm; else if (where == 2) R[1].lhs = nm; else R[1].rhs[0] = nm;
      if (what == 0 && where == 0) R[0].lhs = "a";     /* terminal as left-hand side of the first rule */
      if (what == 0 && where == 2) R[1].lhs = "b";     /* terminal as left-hand side of a later rule */
    }
  g = yaep_create_grammar (); sx_assume (g != NULL);
  ti = ri = 0;
  rc = yaep_read_grammar (g, strict, rd_term, rd_rule);
  oracle (strict);
  sx_observe ("rc", rc); sx_observe ("strict", strict);
  any = 0; for (i = 0; i < 20; i++) any |= present[i];
  for (i = 4; i <= 16; i++) sx_observe ("defect", present[i] != 0);
  sx_assert ((rc == 0) == (any == 0), "definition succeeds iff the grammar has none of the documented defects");
  sx_assert (rc == 0 || (rc >= 4 && rc <= 16), "error code is one of the documented grammar codes");
  if (rc >= 4 && rc <= 16) sx_assert (present[rc] != 0, "the defect named by the error code is really present");
  sx_assert (yaep_error_code (g) == rc, "yaep_error_code equals the returned code");
  if (rc != 0)
    {
      sx_assert (yaep_error_message (g)[0] != 0, "error message is non-empty");
      prc = yaep_parse (g, dummy_tok, dummy_err, dummy_alloc, NULL, &root, &amb);
      sx_assert (prc == YAEP_UNDEFINED_OR_BAD_GRAMMAR, "after a failed definition the object refuses to parse");
    }
  yaep_free_grammar (g);
  if (sx_param ("witness", 0)) sx_assert (0, "witness");
}
