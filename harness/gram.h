/* Grammar representation of the harnesses and the grammar catalogue (DESIGN.md section 5).
   A grammar is plain data owned by the harness; yaep sees it only through the public
   read_terminal/read_rule callbacks (or as description text produced by g_describe). */
#ifndef GRAM_H
#define GRAM_H
#include <limits.h>
#include <string.h>
#include "yaep.h"

enum { SK_TERM, SK_NT, SK_ERR };
#define NILTR (-1)
#define G_MAXSYM 56
#define G_MAXRULE 30
#define G_MAXRHS 5
#define G_MAXTR 4

struct gsym { const char *name; int kind; int code; };
struct grule
{
  int lhs, n, rhs[G_MAXRHS];
  const char *anode;            /* NULL: no abstract node */
  int cost;
  int ntr, tr[G_MAXTR];         /* translation list: rhs index or NILTR */
};
struct gram
{
  const char *id;
  int nsym; struct gsym sym[G_MAXSYM];
  int nrule; struct grule rule[G_MAXRULE];
};

#define T(n, c) { n, SK_TERM, c }
#define N(n) { n, SK_NT, -1 }
#define ERR { "error", SK_ERR, -1 }

/* ---- catalogue.  Symbol indices are positions in sym[]; the start symbol is rule[0].lhs. */
static const struct gram catalogue[] = {
  /* 0: G1 left-recursive list with abstract nodes:  L : L a # cons(0 1) | a # one(0) */
  { "G1", 3, { T ("a", 'a'), T ("b", 'b'), N ("L") }, 3,
    { { 2, 2, { 2, 0 }, "cons", 1, 2, { 0, 1 } },
      { 2, 1, { 0 }, "one", 1, 1, { 0 } },
      { 2, 1, { 1 }, "oneb", 2, 1, { 0 } } } },
  /* 1: G2 right-recursive list, pass-through and nil padding */
  { "G2", 3, { T ("a", 'a'), T ("b", 'b'), N ("R") }, 3,
    { { 2, 2, { 0, 2 }, "cons", 1, 3, { 1, NILTR, 0 } },
      { 2, 1, { 1 }, NULL, 0, 1, { 0 } },
      { 2, 0, { 0 }, NULL, 0, 0, { 0 } } } },
  /* 2: G3 ambiguous expressions with costs:  E : E + E # p | E * E # m | a */
  { "G3", 4, { T ("a", 'a'), T ("+", '+'), T ("*", '*'), N ("E") }, 3,
    { { 3, 3, { 3, 1, 3 }, "p", 1, 2, { 0, 2 } },
      { 3, 3, { 3, 2, 3 }, "m", 2, 2, { 0, 2 } },
      { 3, 1, { 0 }, NULL, 0, 1, { 0 } } } },
  /* 3: G4 nullable chain  S : A B C # s(0 1 2); A : a | ; B : b | ; C : a | */
  { "G4", 6, { T ("a", 'a'), T ("b", 'b'), N ("S"), N ("A"), N ("B"), N ("C") }, 7,
    { { 2, 3, { 3, 4, 5 }, "s", 1, 3, { 0, 1, 2 } },
      { 3, 1, { 0 }, "A", 1, 1, { 0 } }, { 3, 0, { 0 }, NULL, 0, 0, { 0 } },
      { 4, 1, { 1 }, "B", 1, 1, { 0 } }, { 4, 0, { 0 }, NULL, 0, 0, { 0 } },
      { 5, 1, { 0 }, "C", 1, 1, { 0 } }, { 5, 0, { 0 }, NULL, 0, 0, { 0 } } } },
  /* 4: G5 hidden left recursion  S : A S b # h(0 1) | a # 0 ; A : | a # x(0) */
  { "G5", 4, { T ("a", 'a'), T ("b", 'b'), N ("S"), N ("A") }, 4,
    { { 2, 3, { 3, 2, 1 }, "h", 1, 2, { 0, 1 } },
      { 2, 1, { 0 }, NULL, 0, 1, { 0 } },
      { 3, 0, { 0 }, NULL, 0, 0, { 0 } },
      { 3, 1, { 0 }, "x", 1, 1, { 0 } } } },
  /* 5: G6 unit-rule chain  S : A ; A : B ; B : a | b B # w(1) | S2... */
  { "G6", 5, { T ("a", 'a'), T ("b", 'b'), N ("S"), N ("A"), N ("B") }, 4,
    { { 2, 1, { 3 }, NULL, 0, 1, { 0 } },
      { 3, 1, { 4 }, "u", 1, 1, { 0 } },
      { 4, 1, { 0 }, NULL, 0, 1, { 0 } },
      { 4, 2, { 1, 4 }, "w", 1, 1, { 1 } } } },
  /* 6: G7 palindromes  S : a S a # pa(1) | b S b # pb(1) | */
  { "G7", 3, { T ("a", 'a'), T ("b", 'b'), N ("S") }, 3,
    { { 2, 3, { 0, 2, 0 }, "pa", 1, 1, { 1 } },
      { 2, 3, { 1, 2, 1 }, "pb", 1, 1, { 1 } },
      { 2, 0, { 0 }, NULL, 0, 0, { 0 } } } },
  /* 7: G8 dangling else  S : i S # if(1) | i S e S # ife(1 3) | x */
  { "G8", 4, { T ("i", 'i'), T ("e", 'e'), T ("x", 'x'), N ("S") }, 3,
    { { 3, 2, { 0, 3 }, "if", 1, 1, { 1 } },
      { 3, 4, { 0, 3, 1, 3 }, "ife", 1, 2, { 1, 3 } },
      { 3, 1, { 2 }, NULL, 0, 1, { 0 } } } },
  /* 8: G9 expressions with ( error ):  E : E + E # p(0 2) | a | ( E ) # 1 | ( error ) # e(1) */
  { "G9", 6, { T ("a", 'a'), T ("+", '+'), T ("(", '('), T (")", ')'), ERR, N ("E") }, 4,
    { { 5, 3, { 5, 1, 5 }, "p", 1, 2, { 0, 2 } },
      { 5, 1, { 0 }, NULL, 0, 1, { 0 } },
      { 5, 3, { 2, 5, 3 }, NULL, 0, 1, { 1 } },
      { 5, 3, { 2, 4, 3 }, "e", 1, 1, { 1 } } } },
  /* 9: G10 statement list with error ';' :  L : L S # l(0 1) | S ; S : a ; # s(0) | error ; # e */
  { "G10", 6, { T ("a", 'a'), T (";", ';'), T ("b", 'b'), ERR, N ("L"), N ("S") }, 5,
    { { 4, 2, { 4, 5 }, "l", 1, 2, { 0, 1 } },
      { 4, 1, { 5 }, NULL, 0, 1, { 0 } },
      { 5, 2, { 0, 1 }, "s", 1, 1, { 0 } },
      { 5, 2, { 3, 1 }, "e", 1, 1, { 0 } },
      { 5, 4, { 2, 2, 2, 1 }, "t", 1, 1, { 0 } } } },
  /* 10: G11 LR(2) conflict  S : A x y # sa(0) | B x z # sb(0); A : a # A(0); B : a # B(0) */
  { "G11", 7, { T ("a", 'a'), T ("x", 'x'), T ("y", 'y'), T ("z", 'z'), N ("S"), N ("A"), N ("B") }, 4,
    { { 4, 3, { 5, 1, 2 }, "sa", 1, 1, { 0 } },
      { 4, 3, { 6, 1, 3 }, "sb", 1, 1, { 0 } },
      { 5, 1, { 0 }, "A", 1, 1, { 0 } },
      { 6, 1, { 0 }, "B", 1, 1, { 0 } } } },
  /* 11: G12 goto-cache stressor: the same phrase re-entered from different origins
     S : P Q # s(0 1) | P # 0 ; P : x A c # p(1) ; Q : y A d # q(1) | x A c # q2(1) ; A : a b # ab(0 1) | a # a1(0) */
  { "G12", 10, { T ("a", 'a'), T ("b", 'b'), T ("x", 'x'), T ("y", 'y'), T ("c", 'c'), T ("d", 'd'), N ("S"), N ("P"), N ("Q"), N ("A") }, 7,
    { { 6, 2, { 7, 8 }, "s", 1, 2, { 0, 1 } },
      { 6, 1, { 7 }, NULL, 0, 1, { 0 } },
      { 7, 3, { 2, 9, 4 }, "p", 1, 1, { 1 } },
      { 8, 3, { 3, 9, 5 }, "q", 1, 1, { 1 } },
      { 8, 3, { 2, 9, 4 }, "q2", 1, 1, { 1 } },
      { 9, 2, { 0, 1 }, "ab", 1, 2, { 0, 1 } },
      { 9, 1, { 0 }, "a1", 1, 1, { 0 } } } },
  /* 12: G13 translation shapes: permuted, partial, nil-padded, '-' with and without node, empty
     S : a A b # perm(2 0 1) | b A # part(1) | A A # - ... */
  { "G13", 5, { T ("a", 'a'), T ("b", 'b'), T ("c", 'c'), N ("S"), N ("A") }, 7,
    { { 3, 3, { 0, 4, 1 }, "perm", 1, 3, { 2, 0, 1 } },
      { 3, 2, { 1, 4 }, "part", 1, 1, { 1 } },
      { 3, 2, { 2, 4 }, "pad", 1, 3, { NILTR, 1, NILTR } },
      { 3, 2, { 2, 2 }, "empty", 1, 0, { 0 } },
      { 3, 3, { 2, 2, 4 }, NULL, 0, 1, { NILTR } },
      { 4, 1, { 0 }, NULL, 0, 1, { 0 } },
      { 4, 0, { 0 }, NULL, 0, 0, { 0 } } } },
  /* 13: G14 sharing: several spans for an untranslated symbol, several splits of one rule
     S : X X # s(1) | X # 0 ; X : X a # x(0) | a # y ; plus S : a S # t(1) */
  { "G14", 4, { T ("a", 'a'), T ("b", 'b'), N ("S"), N ("X") }, 6,
    { { 2, 2, { 3, 3 }, "s", 1, 1, { 1 } },
      { 2, 1, { 3 }, NULL, 0, 1, { 0 } },
      { 3, 2, { 3, 0 }, "x", 1, 1, { 0 } },
      { 3, 1, { 0 }, "y", 2, 0, { 0 } },
      { 3, 1, { 1 }, "z", 1, 1, { 0 } },
      { 2, 2, { 1, 2 }, "t", 3, 1, { 1 } } } },
  /* 14: G15 the test suite's expression grammar (test01..): E : T | E + T ; T : F | T * F ; F : a | ( E ) */
  { "G15", 9, { T ("a", 'a'), T ("+", '+'), T ("*", '*'), T ("(", '('), T (")", ')'), N ("E"), N ("T"), N ("F"), ERR }, 7,
    { { 5, 1, { 6 }, NULL, 0, 1, { 0 } },
      { 5, 3, { 5, 1, 6 }, "plus", 1, 2, { 0, 2 } },
      { 6, 1, { 7 }, NULL, 0, 1, { 0 } },
      { 6, 3, { 6, 2, 7 }, "mult", 1, 2, { 0, 2 } },
      { 7, 1, { 0 }, NULL, 0, 1, { 0 } },
      { 7, 3, { 3, 5, 4 }, NULL, 0, 1, { 1 } },
      { 7, 3, { 3, 8, 4 }, "err", 1, 0, { 0 } } } },
  /* 15: G16 error-first start rule (suppresses the implicit $S : error $eof in spirit):
     S : error # top | S a ; # sa(0 1) | a ; # one(0) */
  { "G16", 5, { T ("a", 'a'), T (";", ';'), T ("b", 'b'), ERR, N ("S") }, 3,
    { { 4, 3, { 4, 0, 1 }, "sa", 1, 2, { 0, 1 } },
      { 4, 2, { 0, 1 }, "one", 1, 1, { 0 } },
      { 4, 2, { 3, 1 }, "bad", 1, 0, { 0 } } } },
  /* 16: G17 recovery probe from DESIGN 7.6:  S : a b c d # p | error c d d # q */
  { "G17", 6, { T ("a", 'a'), T ("b", 'b'), T ("c", 'c'), T ("d", 'd'), ERR, N ("S") }, 2,
    { { 5, 4, { 0, 1, 2, 3 }, "p", 0, 0, { 0 } },
      { 5, 4, { 4, 2, 3, 3 }, "q", 1, 0, { 0 } } } },
  /* 17: G18 nullable + ambiguity + sharing of NIL:  S : A A # s(0 1) ; A : a # a(0) | # n | A a # aa(0 1)?? kept small */
  { "G18", 3, { T ("a", 'a'), N ("S"), N ("A") }, 3,
    { { 1, 2, { 2, 2 }, "s", 1, 2, { 0, 1 } },
      { 2, 1, { 0 }, "a", 1, 1, { 0 } },
      { 2, 0, { 0 }, NULL, 0, 0, { 0 } } } },
  /* 18: G19 repeated phrases in a list: identical Earley sets recur, so the goto cache is hit
     S : S P # l(0 1) | P ; P : x A c # p(1) | y A d # q(1) ; A : a b # ab(0 1) | a # a1(0) */
  { "G19", 9, { T ("a", 'a'), T ("b", 'b'), T ("x", 'x'), T ("y", 'y'), T ("c", 'c'), T ("d", 'd'), N ("S"), N ("P"), N ("A") }, 6,
    { { 6, 2, { 6, 7 }, "l", 1, 2, { 0, 1 } },
      { 6, 1, { 7 }, NULL, 0, 1, { 0 } },
      { 7, 3, { 2, 8, 4 }, "p", 1, 1, { 1 } },
      { 7, 3, { 3, 8, 5 }, "q", 1, 1, { 1 } },
      { 8, 2, { 0, 1 }, "ab", 1, 2, { 0, 1 } },
      { 8, 1, { 0 }, "a1", 1, 1, { 0 } } } },
  /* 19: G20 unit-rule chain whose members are predicted before their second parent (dynamic lookahead contexts)
     S : B z # sb(0) | A y # sa(0) | N x # sn(0) ; A : N ; B : A ; N : n */
  { "G20", 8, { T ("n", 'n'), T ("x", 'x'), T ("y", 'y'), T ("z", 'z'), N ("S"), N ("A"), N ("B"), N ("N") }, 6,
    { { 4, 2, { 6, 3 }, "sb", 1, 1, { 0 } },
      { 4, 2, { 5, 2 }, "sa", 1, 1, { 0 } },
      { 4, 2, { 7, 1 }, "sn", 1, 1, { 0 } },
      { 5, 1, { 7 }, NULL, 0, 1, { 0 } },
      { 6, 1, { 5 }, NULL, 0, 1, { 0 } },
      { 7, 1, { 0 }, NULL, 0, 1, { 0 } } } },
  /* 20: G21 backward dependency between predicted situations, same set core expanded twice
     S : T T # s(0 1) ; T : V2 | U2 | V | U ; U : p A x # u(1) ; V : p Y q # v(1) ; U2 : r A x # u2(1) ; V2 : r Y q # v2(1) ;
     Y : A E # y(0 1) ; E : | e ; A : a */
  { "G21", 15, { T ("p", 'p'), T ("r", 'r'), T ("x", 'x'), T ("q", 'q'), T ("e", 'e'), T ("a", 'a'),
                 N ("S"), N ("T"), N ("U"), N ("V"), N ("U2"), N ("V2"), N ("Y"), N ("E"), N ("A") }, 13,
    { { 6, 2, { 7, 7 }, "s", 1, 2, { 0, 1 } },
      { 7, 1, { 11 }, NULL, 0, 1, { 0 } }, { 7, 1, { 10 }, NULL, 0, 1, { 0 } }, { 7, 1, { 9 }, NULL, 0, 1, { 0 } }, { 7, 1, { 8 }, NULL, 0, 1, { 0 } },
      { 8, 3, { 0, 14, 2 }, "u", 1, 1, { 1 } },
      { 9, 3, { 0, 12, 3 }, "v", 1, 1, { 1 } },
      { 10, 3, { 1, 14, 2 }, "u2", 1, 1, { 1 } },
      { 11, 3, { 1, 12, 3 }, "v2", 1, 1, { 1 } },
      { 12, 2, { 14, 13 }, "y", 1, 2, { 0, 1 } },
      { 13, 0, { 0 }, NULL, 0, 1, { NILTR } },
      { 13, 1, { 4 }, NULL, 0, 1, { 0 } },
      { 14, 1, { 5 }, NULL, 0, 1, { 0 } } } },
  /* 21: G22 permuted translation, middle symbol completing from two origins
     S : A B C # s(0 2 1) ; A : a | a a # A2(0 1) ; B : a b # B2(0 1) | b ; C : c */
  { "G22", 7, { T ("a", 'a'), T ("b", 'b'), T ("c", 'c'), N ("S"), N ("A"), N ("B"), N ("C") }, 6,
    { { 3, 3, { 4, 5, 6 }, "s", 1, 3, { 0, 2, 1 } },
      { 4, 1, { 0 }, NULL, 0, 1, { 0 } },
      { 4, 2, { 0, 0 }, "A2", 1, 2, { 0, 1 } },
      { 5, 2, { 0, 1 }, "B2", 1, 2, { 0, 1 } },
      { 5, 1, { 1 }, NULL, 0, 1, { 0 } },
      { 6, 1, { 2 }, NULL, 0, 1, { 0 } } } },
  /* 22: G23 the same item with a nullable symbol after the dot twice in one set (two origins)
     S : P T # s(0 1) ; P : a | a a # P2(0 1) ; T : X N # t(0 1) ; X : a | a a # X2(0 1) ; N : # n() */
  { "G23", 6, { T ("a", 'a'), N ("S"), N ("P"), N ("T"), N ("X"), N ("N") }, 7,
    { { 1, 2, { 2, 3 }, "s", 1, 2, { 0, 1 } },
      { 2, 1, { 0 }, NULL, 0, 1, { 0 } },
      { 2, 2, { 0, 0 }, "P2", 1, 2, { 0, 1 } },
      { 3, 2, { 4, 5 }, "t", 1, 2, { 0, 1 } },
      { 4, 1, { 0 }, NULL, 0, 1, { 0 } },
      { 4, 2, { 0, 0 }, "X2", 1, 2, { 0, 1 } },
      { 5, 0, { 0 }, "n", 1, 0, { 0 } } } },
  /* 23: G24 a nonterminal followed only by a nullable symbol (FOLLOW through nullable tails)
     S : ( L ) # par(1) | a ; L : S T # l1(0 1) | L , S T # l2(0 2 3) ; T : t | */
  { "G24", 8, { T ("(", '('), T (")", ')'), T ("a", 'a'), T (",", ','), T ("t", 't'), N ("S"), N ("L"), N ("T") }, 6,
    { { 5, 3, { 0, 6, 1 }, "par", 1, 1, { 1 } },
      { 5, 1, { 2 }, NULL, 0, 1, { 0 } },
      { 6, 2, { 5, 7 }, "l1", 1, 2, { 0, 1 } },
      { 6, 4, { 6, 3, 5, 7 }, "l2", 1, 3, { 0, 2, 3 } },
      { 7, 1, { 4 }, NULL, 0, 1, { 0 } },
      { 7, 0, { 0 }, NULL, 0, 0, { 0 } } } },
  /* 24: G25 error rule of a non-start nonterminal:  S : A b c d # s(0) ; A : a | error # e() */
  { "G25", 7, { T ("a", 'a'), T ("b", 'b'), T ("c", 'c'), T ("d", 'd'), ERR, N ("S"), N ("A") }, 3,
    { { 5, 4, { 6, 1, 2, 3 }, "s", 1, 1, { 0 } },
      { 6, 1, { 0 }, NULL, 0, 1, { 0 } },
      { 6, 1, { 4 }, "e", 1, 0, { 0 } } } },
  /* 25: G26 the nil node occurs only in the more expensive alternative
     S : X | Y ; X : a O # x 5 (0 1) ; Y : a # y 1 (0) ; O : */
  { "G26", 5, { T ("a", 'a'), N ("S"), N ("X"), N ("Y"), N ("O") }, 5,
    { { 1, 1, { 2 }, NULL, 0, 1, { 0 } },
      { 1, 1, { 3 }, NULL, 0, 1, { 0 } },
      { 2, 2, { 0, 4 }, "x", 5, 2, { 0, 1 } },
      { 3, 1, { 0 }, "y", 1, 1, { 0 } },
      { 4, 0, { 0 }, NULL, 0, 0, { 0 } } } },
  /* 26: G27 partial translation: an untranslated right-recursive nonterminal right of a translated terminal
     S : y N # node(0) ; N : y N | y */
  { "G27", 3, { T ("y", 'y'), N ("S"), N ("N") }, 3,
    { { 1, 2, { 0, 2 }, "node", 1, 1, { 0 } },
      { 2, 2, { 0, 2 }, NULL, 0, 0, { 0 } },
      { 2, 1, { 0 }, NULL, 0, 0, { 0 } } } },
  /* 27: G28 an untranslated nonterminal that can start at two places next to a translated sibling
     S : B C # 0 ; B : a # b1() | a a # b2() ; C : a | a a */
  { "G28", 4, { T ("a", 'a'), N ("S"), N ("B"), N ("C") }, 5,
    { { 1, 2, { 2, 3 }, NULL, 0, 1, { 0 } },
      { 2, 1, { 0 }, "b1", 1, 0, { 0 } },
      { 2, 2, { 0, 0 }, "b2", 1, 0, { 0 } },
      { 3, 1, { 0 }, NULL, 0, 0, { 0 } },
      { 3, 2, { 0, 0 }, NULL, 0, 0, { 0 } } } },
  /* 28: G29 error at the end of a rule and in the middle:  S : a error # e1() | a error b c # e2() */
  { "G29", 5, { T ("a", 'a'), T ("b", 'b'), T ("c", 'c'), ERR, N ("S") }, 2,
    { { 4, 2, { 0, 3 }, "e1", 1, 0, { 0 } },
      { 4, 4, { 0, 3, 1, 2 }, "e2", 1, 0, { 0 } } } },
  /* 29: G30 three nested error contexts
     S : a T # s1(1) | a error X # s2(2) ; X : | X x # xx(0) | X y # xy(0) | X r # xr(0) ; T : b U # t1(1) | b error q # t2() ; U : c d # u1() | c error r # u2() */
  { "G30", 13, { T ("a", 'a'), T ("b", 'b'), T ("c", 'c'), T ("d", 'd'), T ("x", 'x'), T ("y", 'y'), T ("r", 'r'), T ("q", 'q'), ERR, N ("S"), N ("X"), N ("T"), N ("U") }, 10,
    { { 9, 2, { 0, 11 }, "s1", 1, 1, { 1 } },
      { 9, 3, { 0, 8, 10 }, "s2", 1, 1, { 2 } },
      { 10, 0, { 0 }, NULL, 0, 0, { 0 } },
      { 10, 2, { 10, 4 }, "xx", 1, 1, { 0 } },
      { 10, 2, { 10, 5 }, "xy", 1, 1, { 0 } },
      { 10, 2, { 10, 6 }, "xr", 1, 1, { 0 } },
      { 11, 2, { 1, 12 }, "t1", 1, 1, { 1 } },
      { 11, 3, { 1, 8, 7 }, "t2", 1, 0, { 0 } },
      { 12, 2, { 2, 3 }, "u1", 1, 0, { 0 } },
      { 12, 3, { 2, 8, 6 }, "u2", 1, 0, { 0 } } } },
  /* 30: G31 the same nullable-skip item live for two origins, continuation needs the second one
     S : A p # sp(0) | x A q # sq(1) ; A : B N b # ab(0 1) ; B : x | x x # xx(0 1) ; N : | n */
  { "G31", 9, { T ("p", 'p'), T ("q", 'q'), T ("x", 'x'), T ("b", 'b'), T ("n", 'n'), N ("S"), N ("A"), N ("B"), N ("N") }, 7,
    { { 5, 2, { 6, 0 }, "sp", 1, 1, { 0 } },
      { 5, 3, { 2, 6, 1 }, "sq", 1, 1, { 1 } },
      { 6, 3, { 7, 8, 3 }, "ab", 1, 2, { 0, 1 } },
      { 7, 1, { 2 }, NULL, 0, 1, { 0 } },
      { 7, 2, { 2, 2 }, "xx", 1, 2, { 0, 1 } },
      { 8, 0, { 0 }, NULL, 0, 0, { 0 } },
      { 8, 1, { 4 }, NULL, 0, 1, { 0 } } } },
  /* 31: G32 a chain written leaves-first: FOLLOW has to travel against the order in which the nonterminals appear
     S : T ; X : x ; D : X d | X ; C : D c | D ; B : C b | C ; A : B a | B ; T : A t | A */
  { "G32", 13, { T ("x", 'x'), T ("d", 'd'), T ("c", 'c'), T ("b", 'b'), T ("a", 'a'), T ("t", 't'),
                 N ("S"), N ("T"), N ("X"), N ("D"), N ("C"), N ("B"), N ("A") }, 12,
    { { 6, 1, { 7 }, NULL, 0, 1, { 0 } },
      { 8, 1, { 0 }, NULL, 0, 1, { 0 } },
      { 9, 2, { 8, 1 }, "dd", 1, 1, { 0 } }, { 9, 1, { 8 }, NULL, 0, 1, { 0 } },
      { 10, 2, { 9, 2 }, "cc", 1, 1, { 0 } }, { 10, 1, { 9 }, NULL, 0, 1, { 0 } },
      { 11, 2, { 10, 3 }, "bb", 1, 1, { 0 } }, { 11, 1, { 10 }, NULL, 0, 1, { 0 } },
      { 12, 2, { 11, 4 }, "aa", 1, 1, { 0 } }, { 12, 1, { 11 }, NULL, 0, 1, { 0 } },
      { 7, 2, { 12, 5 }, "tt", 1, 1, { 0 } }, { 7, 1, { 12 }, NULL, 0, 1, { 0 } } } },
  /* 32: G33 a three-operand rule competing with two binary ones (different rule multisets for one input)
     E : E + E # add(0 2) | E * E # mult(0 2) | E * E + E # madd(0 2 4) | a */
  { "G33", 4, { T ("a", 'a'), T ("+", '+'), T ("*", '*'), N ("E") }, 4,
    { { 3, 3, { 3, 1, 3 }, "add", 1, 2, { 0, 2 } },
      { 3, 3, { 3, 2, 3 }, "mult", 1, 2, { 0, 2 } },
      { 3, 5, { 3, 2, 3, 1, 3 }, "madd", 3, 3, { 0, 2, 4 } },
      { 3, 1, { 0 }, NULL, 0, 1, { 0 } } } },
  /* 33: G34 like G9, but the error rule translates its parentheses:  E : E + E # p(0 2) | a | ( E ) # 1 | ( error ) # x(0 2) */
  { "G34", 6, { T ("a", 'a'), T ("+", '+'), T ("(", '('), T (")", ')'), ERR, N ("E") }, 4,
    { { 5, 3, { 5, 1, 5 }, "p", 1, 2, { 0, 2 } },
      { 5, 1, { 0 }, NULL, 0, 1, { 0 } },
      { 5, 3, { 2, 5, 3 }, NULL, 0, 1, { 1 } },
      { 5, 3, { 2, 4, 3 }, "x", 1, 2, { 0, 2 } } } },
  /* 34: G35 the same phrase C re-entered after different openers in a list: the Earley set after 'p' is the same for both
     openers, so the goto cache is consulted with origins that differ only in the first start situation
     L : I L # l(0 1) | z ; I : a C d # A(0 1 2) | b C d # B(0 1 2) ; C : p q # C(0 1) */
  { "G35", 9, { T ("a", 'a'), T ("b", 'b'), T ("p", 'p'), T ("q", 'q'), T ("d", 'd'), T ("z", 'z'), N ("L"), N ("I"), N ("C") }, 5,
    { { 6, 2, { 7, 6 }, "l", 1, 2, { 0, 1 } },
      { 6, 1, { 5 }, NULL, 0, 1, { 0 } },
      { 7, 3, { 0, 8, 4 }, "A", 1, 3, { 0, 1, 2 } },
      { 7, 3, { 1, 8, 4 }, "B", 1, 3, { 0, 1, 2 } },
      { 8, 2, { 2, 3 }, "C", 1, 2, { 0, 1 } } } },
  /* 35: G36 items with a left-recursive body of varying length in a list: origin sets with equal cores but different distances
     S : I | S I # s(0 1) ; I : p Z x # px(1) | q Z y # qy(1) ; Z : z | Z z # zz(0 1) | Z D # zd(0 1) ; D : d e # de */
  { "G36", 11, { T ("p", 'p'), T ("q", 'q'), T ("x", 'x'), T ("y", 'y'), T ("z", 'z'), T ("d", 'd'), T ("e", 'e'), N ("S"), N ("I"), N ("Z"), N ("D") }, 8,
    { { 7, 1, { 8 }, NULL, 0, 1, { 0 } },
      { 7, 2, { 7, 8 }, "s", 1, 2, { 0, 1 } },
      { 8, 3, { 0, 9, 2 }, "px", 1, 1, { 1 } },
      { 8, 3, { 1, 9, 3 }, "qy", 1, 1, { 1 } },
      { 9, 1, { 4 }, NULL, 0, 1, { 0 } },
      { 9, 2, { 9, 4 }, "zz", 1, 2, { 0, 1 } },
      { 9, 2, { 9, 10 }, "zd", 1, 2, { 0, 1 } },
      { 10, 2, { 5, 6 }, "de", 1, 0, { 0 } } } },
  /* 36: G37 FIRST sets settle in two passes (every chain rule starts with a terminal) while FOLLOW has to travel down a chain
     of last-symbol nonterminals that are numbered against the direction of travel
     S : A x # s(0) ; F : f | f f # ff(0 1) ; E : e F # E(0 1) ; D : d E # D(0 1) ; C : c D # C(0 1) ; B : b C # B(0 1) ; A : a B # A(0 1) */
  { "G37", 14, { T ("x", 'x'), T ("f", 'f'), T ("e", 'e'), T ("d", 'd'), T ("c", 'c'), T ("b", 'b'), T ("a", 'a'),
                 N ("S"), N ("A"), N ("F"), N ("E"), N ("D"), N ("C"), N ("B") }, 8,
    { { 7, 2, { 8, 0 }, "s", 1, 1, { 0 } },
      { 9, 1, { 1 }, NULL, 0, 1, { 0 } },
      { 9, 2, { 1, 1 }, "ff", 1, 2, { 0, 1 } },
      { 10, 2, { 2, 9 }, "E", 1, 2, { 0, 1 } },
      { 11, 2, { 3, 10 }, "D", 1, 2, { 0, 1 } },
      { 12, 2, { 4, 11 }, "C", 1, 2, { 0, 1 } },
      { 13, 2, { 5, 12 }, "B", 1, 2, { 0, 1 } },
      { 8, 2, { 6, 13 }, "A", 1, 2, { 0, 1 } } } },
  /* 37: G38 eleven terminals; the dynamic-lookahead contexts of X ({q}, {s}, {u}, {w}) differ only in late-numbered terminals
     S : A | S A # s(0 1) ; A : p X q # pq(1) | r X s # rs(1) | t X u # tu(1) | v X w # vw(1) ; X : i | i j # ij(0 1) | k */
  { "G38", 14, { T ("i", 'i'), T ("j", 'j'), T ("k", 'k'), T ("p", 'p'), T ("r", 'r'), T ("t", 't'), T ("v", 'v'), T ("q", 'q'), T ("s", 's'), T ("u", 'u'), T ("w", 'w'),
                 N ("S"), N ("A"), N ("X") }, 9,
    { { 11, 1, { 12 }, NULL, 0, 1, { 0 } },
      { 11, 2, { 11, 12 }, "s", 1, 2, { 0, 1 } },
      { 12, 3, { 3, 13, 7 }, "pq", 1, 1, { 1 } },
      { 12, 3, { 4, 13, 8 }, "rs", 1, 1, { 1 } },
      { 12, 3, { 5, 13, 9 }, "tu", 1, 1, { 1 } },
      { 12, 3, { 6, 13, 10 }, "vw", 1, 1, { 1 } },
      { 13, 1, { 0 }, NULL, 0, 1, { 0 } },
      { 13, 2, { 0, 1 }, "ij", 1, 2, { 0, 1 } },
      { 13, 1, { 2 }, NULL, 0, 1, { 0 } } } },
  /* 38: G39 the same terminal reached through a unit-rule chain, directly, and in front of another terminal: at lookahead 2
     the contexts of the predicted situations need a second pass
     S : b # s3(0) | C | A x # s1(0 1) ; C : A # c(0) ; A : b # a(0) */
  { "G39", 5, { T ("b", 'b'), T ("x", 'x'), N ("S"), N ("C"), N ("A") }, 5,
    { { 2, 1, { 0 }, "s3", 1, 1, { 0 } },
      { 2, 1, { 3 }, NULL, 0, 1, { 0 } },
      { 2, 2, { 4, 1 }, "s1", 1, 2, { 0, 1 } },
      { 3, 1, { 4 }, "c", 1, 1, { 0 } },
      { 4, 1, { 0 }, "a", 1, 1, { 0 } } } },
  /* 39: G40 an abstract node without children competes with nodes that have children (cost pruning has to select a leaf)
     S : x X # top(0 1) | x a # flat(1) ; X : a # leaf | a # wrap(0) | a b # two(0 1) */
  { "G40", 5, { T ("x", 'x'), T ("a", 'a'), T ("b", 'b'), N ("S"), N ("X") }, 5,
    { { 3, 2, { 0, 4 }, "top", 1, 2, { 0, 1 } },
      { 3, 2, { 0, 1 }, "flat", 1, 1, { 1 } },
      { 4, 1, { 1 }, "leaf", 1, 0, { 0 } },
      { 4, 1, { 1 }, "wrap", 1, 1, { 0 } },
      { 4, 2, { 1, 2 }, "two", 1, 2, { 0, 1 } } } },
  /* 40: G41 a chain of nullable nonterminals declared top-down, every member with a non-empty alternative
     S : a T b # s(1) ; T : R | t ; R : Q | r ; Q : E | q ; E : */
  { "G41", 10, { T ("a", 'a'), T ("b", 'b'), T ("t", 't'), T ("r", 'r'), T ("q", 'q'), N ("S"), N ("T"), N ("R"), N ("Q"), N ("E") }, 8,
    { { 5, 3, { 0, 6, 1 }, "s", 1, 1, { 1 } },
      { 6, 1, { 7 }, NULL, 0, 1, { 0 } },
      { 6, 1, { 2 }, NULL, 0, 1, { 0 } },
      { 7, 1, { 8 }, NULL, 0, 1, { 0 } },
      { 7, 1, { 3 }, NULL, 0, 1, { 0 } },
      { 8, 1, { 9 }, NULL, 0, 1, { 0 } },
      { 8, 1, { 4 }, NULL, 0, 1, { 0 } },
      { 9, 0, { 0 }, NULL, 0, 0, { 0 } } } },
  /* 41: G42 six bracket pairs around the same phrase: more than ten dynamic-lookahead contexts
     S : A | S A # s(0 1) ; A : p X q # a1(1) | r X s # a2(1) | t X u # a3(1) | v X w # a4(1) | y X z # a5(1) | m X n # a6(1) ; X : i | i j # ij(0 1) */
  { "G42", 17, { T ("i", 'i'), T ("j", 'j'), T ("p", 'p'), T ("r", 'r'), T ("t", 't'), T ("v", 'v'), T ("y", 'y'), T ("m", 'm'),
                 T ("q", 'q'), T ("s", 's'), T ("u", 'u'), T ("w", 'w'), T ("z", 'z'), T ("n", 'n'), N ("S"), N ("A"), N ("X") }, 10,
    { { 14, 1, { 15 }, NULL, 0, 1, { 0 } },
      { 14, 2, { 14, 15 }, "s", 1, 2, { 0, 1 } },
      { 15, 3, { 2, 16, 8 }, "a1", 1, 1, { 1 } },
      { 15, 3, { 3, 16, 9 }, "a2", 1, 1, { 1 } },
      { 15, 3, { 4, 16, 10 }, "a3", 1, 1, { 1 } },
      { 15, 3, { 5, 16, 11 }, "a4", 1, 1, { 1 } },
      { 15, 3, { 6, 16, 12 }, "a5", 1, 1, { 1 } },
      { 15, 3, { 7, 16, 13 }, "a6", 1, 1, { 1 } },
      { 16, 1, { 0 }, NULL, 0, 1, { 0 } },
      { 16, 2, { 0, 1 }, "ij", 1, 2, { 0, 1 } } } },
  /* 42: G43 twelve bracket pairs (a..n open, o..z close) around the same phrase: more dynamic-lookahead contexts than the
     rows the situation table gets at once
     S : A | S A # s(0 1) ; A : a X o # a0(1) | b X p # a1(1) | ... | n X z # a11(1) ; X : i | i j # ij(0 1) */
  { "G43", 29, { T ("i", 'i'), T ("j", 'j'), T ("a", 'a'), T ("b", 'b'), T ("c", 'c'), T ("d", 'd'), T ("e", 'e'), T ("f", 'f'), T ("g", 'g'), T ("h", 'h'), T ("k", 'k'), T ("l", 'l'), T ("m", 'm'), T ("n", 'n'), T ("o", 'o'), T ("p", 'p'), T ("q", 'q'), T ("r", 'r'), T ("s", 's'), T ("t", 't'), T ("u", 'u'), T ("v", 'v'), T ("w", 'w'), T ("x", 'x'), T ("y", 'y'), T ("z", 'z'), N ("S"), N ("A"), N ("X") }, 16,
    { { 26, 1, { 27 }, NULL, 0, 1, { 0 } },
      { 26, 2, { 26, 27 }, "s", 1, 2, { 0, 1 } },
      { 27, 3, { 2, 28, 14 }, "a0", 1, 1, { 1 } },
      { 27, 3, { 3, 28, 15 }, "a1", 1, 1, { 1 } },
      { 27, 3, { 4, 28, 16 }, "a2", 1, 1, { 1 } },
      { 27, 3, { 5, 28, 17 }, "a3", 1, 1, { 1 } },
      { 27, 3, { 6, 28, 18 }, "a4", 1, 1, { 1 } },
      { 27, 3, { 7, 28, 19 }, "a5", 1, 1, { 1 } },
      { 27, 3, { 8, 28, 20 }, "a6", 1, 1, { 1 } },
      { 27, 3, { 9, 28, 21 }, "a7", 1, 1, { 1 } },
      { 27, 3, { 10, 28, 22 }, "a8", 1, 1, { 1 } },
      { 27, 3, { 11, 28, 23 }, "a9", 1, 1, { 1 } },
      { 27, 3, { 12, 28, 24 }, "a10", 1, 1, { 1 } },
      { 27, 3, { 13, 28, 25 }, "a11", 1, 1, { 1 } },
      { 28, 1, { 0 }, NULL, 0, 1, { 0 } },
      { 28, 2, { 0, 1 }, "ij", 1, 2, { 0, 1 } } } },
  /* 43: G44 right recursion with a three-token alternative: a situation reaches a set twice with the same origin
     S : a | a S # r(0 1) | a a a # t(0 1 2) */
  { "G44", 2, { T ("a", 'a'), N ("S") }, 3,
    { { 1, 1, { 0 }, NULL, 0, 1, { 0 } },
      { 1, 2, { 0, 1 }, "r", 1, 2, { 0, 1 } },
      { 1, 3, { 0, 0, 0 }, "t", 1, 3, { 0, 1, 2 } } } },
  /* 44: G45 no terminals at all:  S : T T # s(0 1) ; T : # t */
  { "G45", 2, { N ("S"), N ("T") }, 2,
    { { 0, 2, { 1, 1 }, "s", 1, 2, { 0, 1 } },
      { 1, 0, { 0 }, "t", 1, 0, { 0 } } } },
  /* 45: G46 a terminal with code 0:  S : b S # c(0 1) | z S # d(0 1) | b   (z has code 0, b code 1) */
  { "G46", 3, { T ("z", 0), T ("b", 1), N ("S") }, 3,
    { { 2, 2, { 1, 2 }, "c", 1, 2, { 0, 1 } },
      { 2, 2, { 0, 2 }, "d", 1, 2, { 0, 1 } },
      { 2, 1, { 1 }, NULL, 0, 1, { 0 } } } },
  /* 46: G47 twenty-four bracket pairs (a..n A..N open, o..z O..Z close): more than twenty dynamic-lookahead contexts */
  { "G47", 53, { T ("i", 'i'), T ("j", 'j'), T ("a", 'a'), T ("b", 'b'), T ("c", 'c'), T ("d", 'd'), T ("e", 'e'), T ("f", 'f'), T ("g", 'g'), T ("h", 'h'), T ("k", 'k'), T ("l", 'l'), T ("m", 'm'), T ("n", 'n'), T ("A", 'A'), T ("B", 'B'), T ("C", 'C'), T ("D", 'D'), T ("E", 'E'), T ("F", 'F'), T ("G", 'G'), T ("H", 'H'), T ("K", 'K'), T ("L", 'L'), T ("M", 'M'), T ("N", 'N'), T ("o", 'o'), T ("p", 'p'), T ("q", 'q'), T ("r", 'r'), T ("s", 's'), T ("t", 't'), T ("u", 'u'), T ("v", 'v'), T ("w", 'w'), T ("x", 'x'), T ("y", 'y'), T ("z", 'z'), T ("O", 'O'), T ("P", 'P'), T ("Q", 'Q'), T ("R", 'R'), T ("S", 'S'), T ("T", 'T'), T ("U", 'U'), T ("V", 'V'), T ("W", 'W'), T ("X", 'X'), T ("Y", 'Y'), T ("Z", 'Z'), N ("S0"), N ("A0"), N ("X0") }, 28,
    { { 50, 1, { 51 }, NULL, 0, 1, { 0 } },
      { 50, 2, { 50, 51 }, "s", 1, 2, { 0, 1 } },
      { 51, 3, { 2, 52, 26 }, "a", 1, 1, { 1 } },
      { 51, 3, { 3, 52, 27 }, "a", 1, 1, { 1 } },
      { 51, 3, { 4, 52, 28 }, "a", 1, 1, { 1 } },
      { 51, 3, { 5, 52, 29 }, "a", 1, 1, { 1 } },
      { 51, 3, { 6, 52, 30 }, "a", 1, 1, { 1 } },
      { 51, 3, { 7, 52, 31 }, "a", 1, 1, { 1 } },
      { 51, 3, { 8, 52, 32 }, "a", 1, 1, { 1 } },
      { 51, 3, { 9, 52, 33 }, "a", 1, 1, { 1 } },
      { 51, 3, { 10, 52, 34 }, "a", 1, 1, { 1 } },
      { 51, 3, { 11, 52, 35 }, "a", 1, 1, { 1 } },
      { 51, 3, { 12, 52, 36 }, "a", 1, 1, { 1 } },
      { 51, 3, { 13, 52, 37 }, "a", 1, 1, { 1 } },
      { 51, 3, { 14, 52, 38 }, "a", 1, 1, { 1 } },
      { 51, 3, { 15, 52, 39 }, "a", 1, 1, { 1 } },
      { 51, 3, { 16, 52, 40 }, "a", 1, 1, { 1 } },
      { 51, 3, { 17, 52, 41 }, "a", 1, 1, { 1 } },
      { 51, 3, { 18, 52, 42 }, "a", 1, 1, { 1 } },
      { 51, 3, { 19, 52, 43 }, "a", 1, 1, { 1 } },
      { 51, 3, { 20, 52, 44 }, "a", 1, 1, { 1 } },
      { 51, 3, { 21, 52, 45 }, "a", 1, 1, { 1 } },
      { 51, 3, { 22, 52, 46 }, "a", 1, 1, { 1 } },
      { 51, 3, { 23, 52, 47 }, "a", 1, 1, { 1 } },
      { 51, 3, { 24, 52, 48 }, "a", 1, 1, { 1 } },
      { 51, 3, { 25, 52, 49 }, "a", 1, 1, { 1 } },
      { 52, 1, { 0 }, NULL, 0, 1, { 0 } },
      { 52, 2, { 0, 1 }, "ij", 1, 2, { 0, 1 } } } },
};
#define N_CATALOGUE ((int) (sizeof (catalogue) / sizeof (catalogue[0])))

/* ---- the grammar currently fed to yaep (a private, mutable copy) */
static struct gram G;
static int g_term_i, g_rule_i, g_pad, g_pad_i;
static const char *g_rhsbuf[G_MAXRHS + 1];
static int g_trbuf[G_MAXTR + 1];

static void g_select (const struct gram *g) { G = *g; }
static int g_start (void) { return G.rule[0].lhs; }
static int g_nterm (void) { int i, n = 0; for (i = 0; i < G.nsym; i++) if (G.sym[i].kind == SK_TERM) n++; return n; }
/* k-th real terminal's symbol index */
static int g_term (int k) { int i; for (i = 0; i < G.nsym; i++) if (G.sym[i].kind == SK_TERM && k-- == 0) return i; return -1; }
static int g_errsym (void) { int i; for (i = 0; i < G.nsym; i++) if (G.sym[i].kind == SK_ERR) return i; return -1; }
static int g_has_error_rules (void)
{
  int r, k;
  for (r = 0; r < G.nrule; r++) for (k = 0; k < G.rule[r].n; k++) if (G.sym[G.rule[r].rhs[k]].kind == SK_ERR) return 1;
  return 0;
}

static void g_rewind (void) { g_term_i = g_rule_i = 0; g_pad_i = 0; }
/* g_pad > 0: that many unused terminals (codes 3000..) are declared after the grammar's own terminals, g_pad < 0: before
   them - terminal sets become wider than one machine word and the grammar's terminals lie in the first or the last word */
static char g_padname[8];
static const char *g_pad_term (int *code)
{
  int k = g_pad_i++;
  g_padname[0] = '_'; g_padname[1] = (char) ('a' + k / 26); g_padname[2] = (char) ('a' + k % 26); g_padname[3] = 0;
  *code = 3000 + k;
  return g_padname;
}
static const char *g_read_terminal (int *code)
{
  if (g_pad < 0 && g_pad_i < -g_pad) return g_pad_term (code);
  while (g_term_i < G.nsym && G.sym[g_term_i].kind != SK_TERM) g_term_i++;
  if (g_term_i >= G.nsym)
    {
      if (g_pad > 0 && g_pad_i < g_pad) return g_pad_term (code);
      return NULL;
    }
  *code = G.sym[g_term_i].code;
  return G.sym[g_term_i++].name;
}
static const char *g_read_rule (const char ***rhs, const char **anode, int *cost, int **transl)
{
  const struct grule *r; int i;
  if (g_rule_i >= G.nrule) return NULL;
  r = &G.rule[g_rule_i++];
  for (i = 0; i < r->n; i++) g_rhsbuf[i] = G.sym[r->rhs[i]].name;
  g_rhsbuf[i] = NULL;
  for (i = 0; i < r->ntr; i++) g_trbuf[i] = r->tr[i] == NILTR ? YAEP_NIL_TRANSLATION_NUMBER : r->tr[i];
  g_trbuf[i] = -1;
  *rhs = g_rhsbuf; *anode = r->anode; *cost = r->cost; *transl = g_trbuf;
  return G.sym[r->lhs].name;
}
static int g_define (struct grammar *g, int strict) { g_rewind (); return yaep_read_grammar (g, strict, g_read_terminal, g_read_rule); }

/* ---- description text of G in the documented syntax (single-character terminals are written as
   character constants, others are declared in a TERM section with explicit codes). */
static char *g_puts (char *p, const char *s) { while (*s) *p++ = *s++; return p; }
static char *g_putn (char *p, int n)
{
  char b[12]; int k = 0;
  if (n == 0) b[k++] = '0';
  while (n > 0) { b[k++] = (char) ('0' + n % 10); n /= 10; }
  while (k > 0) *p++ = b[--k];
  return p;
}
static int g_is_charterm (const struct gsym *s) { return s->kind == SK_TERM && s->name[1] == 0 && s->code == (unsigned char) s->name[0] && !((s->name[0] >= 'a' && s->name[0] <= 'z') || (s->name[0] >= 'A' && s->name[0] <= 'Z')); }
static char *g_putsym (char *p, const struct gsym *s)
{
  if (g_is_charterm (s)) { *p++ = '\''; *p++ = s->name[0]; *p++ = '\''; return p; }
  return g_puts (p, s->name);
}
/* lexical / layout variations of the rendering (C11) */
static char g_ws = ' ';        /* the white-space byte used between tokens (may be symbolic) */
static int g_use_sem = 1;      /* optional semicolons written or not */
static int g_style = 0;        /* 0 TERM section first, explicit codes; 1 implicit codes; 2 TERM section after the rules; 3 every declaration repeated */
static int g_comment = 0;      /* a comment after the first rule: 0 none, 1 plain with a star inside, 2 doubled stars, 3 minimal */
static int g_omit_cost = 0;    /* write `# name (..)' without the cost when the cost is the documented default 1 */
static char *g_putterms (char *p)
{
  int i, any = 0, rep;
  for (rep = 0; rep < (g_style == 3 ? 2 : 1); rep++)
    for (i = 0; i < G.nsym; i++)
      if (G.sym[i].kind == SK_TERM && !g_is_charterm (&G.sym[i]))
        {
          if (!any) { p = g_puts (p, "TERM"); any = 1; }
          *p++ = g_ws; p = g_puts (p, G.sym[i].name);
          if (g_style != 1) { *p++ = '='; p = g_putn (p, G.sym[i].code); }
        }
  if (any) { if (g_use_sem) *p++ = ';'; *p++ = g_ws; }
  return p;
}
static void g_describe (char *buf)
{
  char *p = buf; int r, k;
  if (g_style != 2) p = g_putterms (p);
  for (r = 0; r < G.nrule; r++)
    {
      const struct grule *R = &G.rule[r];
      if (r == 0 || G.rule[r - 1].lhs != R->lhs)
        {
          if (r) { if (g_use_sem) { *p++ = g_ws; *p++ = ';'; } *p++ = g_ws; if (g_comment) { p = g_puts (p, g_comment == 1 ? "/* c* / */" : g_comment == 2 ? "/** t **/" : "/***/"); *p++ = g_ws; } }
          p = g_puts (p, G.sym[R->lhs].name); *p++ = g_ws; *p++ = ':';
        }
      else { *p++ = g_ws; *p++ = '|'; }
      for (k = 0; k < R->n; k++) { *p++ = g_ws; p = g_putsym (p, &G.sym[R->rhs[k]]); }
      *p++ = g_ws; *p++ = '#';
      if (R->anode)
        {
          *p++ = g_ws; p = g_puts (p, R->anode); if (!(g_omit_cost && R->cost == 1)) { *p++ = g_ws; p = g_putn (p, R->cost); } *p++ = g_ws; *p++ = '(';
          for (k = 0; k < R->ntr; k++) { *p++ = g_ws; if (R->tr[k] == NILTR) *p++ = '-'; else p = g_putn (p, R->tr[k]); }
          *p++ = g_ws; *p++ = ')';
        }
      else if (R->ntr == 1) { *p++ = g_ws; if (R->tr[0] == NILTR) *p++ = '-'; else p = g_putn (p, R->tr[0]); }
    }
  if (g_use_sem) { *p++ = g_ws; *p++ = ';'; }
  *p++ = g_ws;
  if (g_style == 2) p = g_putterms (p);
  *p = 0;
}
#endif
