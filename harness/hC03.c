/* C03: with all parses requested the DAG denotes exactly the set of translations of all derivations */
#include "ph.h"
void harness (void)
{
  struct pconf c; struct pres r; int bad, i, k, s, l;
  p_setup ();
  o_translations ();
  sx_assume (o_nres > 0);
  c.la = sx_choice ("la", 3); c.one = 0; c.cost = 0; c.rec = (int) sx_param ("rec", 0); c.match = 0; c.use_free = 0;
  p_run (&c, 1, &r);
  sx_observe ("rc", r.rc); sx_observe ("amb", r.amb); sx_observe ("ntrans", o_nres); t_observe (r.root, 0);
  sx_assert (r.rc == 0 && p_nerr == 0, "sentence parses without error");
  sx_assert (r.root != NULL, "sentence yields a DAG");
  if (r.root != NULL)
    {
      bad = t_wellformed (r.root, 1);
      sx_observe ("bad", bad);
      sx_assert (bad == 0, "DAG well-formed: acyclic, ALT alternatives are not ALT, NIL/ERROR single");
      if (bad == 0 && !o_overflow)
        {
          t_check_cost = 1;
          for (i = 0; i < o_nres; i++) sx_assert (t_match (r.root, o_res[i], 0), "no translation is missing from the DAG");
          d_reset (); d_denote (r.root, 0, &s, &l);
          sx_observe ("ndenoted", l);
          if (!d_overflow)
            for (k = 0; k < l; k++)
              {
                int in = 0;
                for (i = 0; i < o_nres; i++) in |= d_match (d_list[s + k], o_res[i]);
                sx_assert (in, "no denoted tree is spurious");
              }
          else sx_reach ("denoted-set capacity exceeded (skipped)");
        }
    }
  p_done (&r, &c);
  p_witness ();
}
