/* C17: failure of any single internal memory request is reported as NULL / YAEP_NO_MEMORY, never a crash;
   the object can still be freed and other objects are unaffected.  The index of the failing
   allocation is symbolic: the VM forks at every allocation on k == i. */
#include "ph.h"

static char arena[1 << 16]; static unsigned long arena_top;
static void *arena_alloc (int n) { void *p = arena + arena_top; arena_top += ((unsigned long) n + 15) & ~15UL; if (arena_top > sizeof arena) return NULL; return p; }
static char descr[2048];
static int big_n, big_ti, big_ri; static char big_names[128][6];
static const char *big_term (int *code) { int k = big_ti; if (k >= big_n) return NULL; big_names[k][0] = 't'; big_names[k][1] = (char) ('a' + k / 26); big_names[k][2] = (char) ('a' + k % 26); big_names[k][3] = 0; *code = 10 + k; big_ti++; return big_names[k]; }
static const char *big_rhs[3];
static const char *big_rule (const char ***rhs, const char **an, int *cost, int **tr) { static int t0[2] = { 0, -1 }; if (big_ri >= big_n) return NULL; big_rhs[0] = big_names[big_ri++]; big_rhs[1] = NULL; *rhs = big_rhs; *an = NULL; *cost = 0; *tr = t0; return "S"; }
static int define_big (struct grammar *g) { big_ti = big_ri = 0; return yaep_read_grammar (g, 1, big_term, big_rule); }

static int run_parse (struct grammar *g, struct yaep_tree_node **root, int *amb)
{
  p_rd = 0; p_nerr = 0; arena_top = 0;
  return yaep_parse (g, p_read_token, p_syntax_error, arena_alloc, NULL, root, amb);
}
static void configure (struct grammar *g, int conf)
{
  yaep_set_lookahead_level (g, conf % 3); yaep_set_one_parse_flag (g, (conf / 3) % 2); yaep_set_cost_flag (g, (conf / 6) % 2); yaep_set_error_recovery_flag (g, (conf / 12) % 2);
}
static int define (struct grammar *g, int how)
{
  if (how == 0) return g_define (g, 1);
  if (how == 1) { g_describe (descr); return yaep_parse_grammar (g, 1, descr); }
  if (how == 2) { struct gram s = G; int rc; G.sym[1].code = G.sym[0].code; rc = g_define (g, 1); G = s; return rc; }     /* repeated terminal code */
  return yaep_parse_grammar (g, 1, "S : 'a' # 0 ; ; |");                                                              /* syntax error */
}

void harness (void)
{
  int scen = (int) sx_param ("scenario", 0), how = (int) sx_param ("how", 0), with_other = (int) sx_param ("other", 0);
  int conf, k, rc, amb, amb2, rc2, nerr2; long A; struct grammar *g, *other = NULL; struct yaep_tree_node *root, *root2;
  p_setup ();
  conf = scen == 2 ? sx_choice ("conf", 24) : scen == 4 ? sx_choice ("la", 3) : 0;
  if (with_other)
    {
      other = yaep_create_grammar (); sx_assume (other != NULL);
      sx_assume (g_define (other, 1) == 0); configure (other, conf);
      rc2 = run_parse (other, &root2, &amb2); nerr2 = p_nerr; sx_assume (rc2 == 0);
    }
  /* dry run on a twin to count the allocations of the fault-free call */
  sx_fail_alloc_at (-1);
  if (scen == 0) { g = yaep_create_grammar (); sx_assume (g != NULL); A = sx_alloc_count (); yaep_free_grammar (g); }
  else
    {
      g = yaep_create_grammar (); sx_assume (g != NULL);
      if (scen == 1) { sx_fail_alloc_at (-1); define (g, how); A = sx_alloc_count (); }
      else if (scen == 3) { big_n = (int) sx_param ("nterm", 70); sx_fail_alloc_at (-1); sx_assume (define_big (g) == 0); A = sx_alloc_count (); }
      else if (scen == 4)
        { /* parse with a grammar whose tables outgrow the initial segments of the object stacks at once */
          big_n = (int) sx_param ("nterm", 70); sx_assume (define_big (g) == 0);
          p_n = 1; p_sym[0] = 0; p_code[0] = 10; p_attr[0] = 5;
          sx_fail_alloc_at (-1); run_parse (g, &root, &amb); A = sx_alloc_count ();
        }
      else { sx_assume (define (g, 0) == 0); configure (g, conf); sx_fail_alloc_at (-1); run_parse (g, &root, &amb); A = sx_alloc_count (); }
      yaep_free_grammar (g);
    }
  sx_observe ("allocations", A);
  sx_assume (A > 0);
  k = sx_range ("fail_at", 0, (int) A - 1);
  /* the run with the k-th allocation failing */
  if (scen == 0)
    {
      sx_fail_alloc_at (k);
      g = yaep_create_grammar ();
      sx_fail_alloc_at (-1);
      sx_assert (g == NULL, "yaep_create_grammar returns NULL when an allocation fails");
      if (g != NULL) yaep_free_grammar (g);
    }
  else
    {
      g = yaep_create_grammar (); sx_assume (g != NULL);
      if (scen == 1 || scen == 3)
        {
          sx_fail_alloc_at (k);
          rc = scen == 1 ? define (g, how) : define_big (g);
          sx_fail_alloc_at (-1);
          sx_observe ("rc", rc);
          sx_assert (rc == YAEP_NO_MEMORY, "grammar definition returns YAEP_NO_MEMORY when an allocation fails");
          sx_assert (yaep_error_code (g) == YAEP_NO_MEMORY, "error code records YAEP_NO_MEMORY");
        }
      else
        {
          if (scen == 4) sx_assume (define_big (g) == 0); else sx_assume (define (g, 0) == 0);
          configure (g, conf);
          sx_fail_alloc_at (k);
          rc = run_parse (g, &root, &amb);
          sx_fail_alloc_at (-1);
          sx_observe ("rc", rc);
          sx_assert (rc == YAEP_NO_MEMORY, "yaep_parse returns YAEP_NO_MEMORY when an allocation fails");
          sx_assert (yaep_error_code (g) == YAEP_NO_MEMORY, "error code records YAEP_NO_MEMORY");
        }
      yaep_free_grammar (g);              /* the object can still be freed */
    }
  if (with_other)
    {
      int rc3, amb3; struct yaep_tree_node *root3;
      rc3 = run_parse (other, &root3, &amb3);
      sx_assert (rc3 == rc2 && p_nerr == nerr2 && (amb3 != 0) == (amb2 != 0) && (root3 != NULL) == (root2 != NULL), "another object parses as before");
      yaep_free_grammar (other);
    }
  p_witness ();
}
