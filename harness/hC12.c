/* C12 (dedicated jobs): no crash, hang or undefined behaviour within the API preconditions.
   Most of C12 is carried by the built-in checks of the VM in every harness; these jobs add inputs
   that the other harnesses do not produce: very long symbol names, hundreds of terminals with dense
   and sparse codes, non-positive recovery_match, arbitrary setter arguments. */
#include "ph.h"

static char longname[400], longname2[400];
static int nterm_big, sparse, ti, ri, which_defect;
static char tn[256][8];
static const char *rd_term (int *code)
{
  if (which_defect >= 0)
    { /* long-name scenarios: two terminals */
      if (ti == 0) { ti++; *code = 1; return longname; }
      if (ti == 1) { ti++; *code = which_defect == 0 ? 2 : 1; return which_defect == 0 ? longname : longname2; }   /* 0: repeated declaration, 1: repeated code */
      return NULL;
    }
  if (ti >= nterm_big) return NULL;
  { int k = ti, p = 0; tn[k][p++] = 't'; tn[k][p++] = (char) ('a' + k / 26 % 26); tn[k][p++] = (char) ('a' + k % 26); tn[k][p] = 0; }
  *code = sparse ? 1000 + ti * 20011 % 2000003 : 10 + ti;
  return tn[ti++];
}
static const char *rhsb[3];
static const char *rd_rule (const char ***rhs, const char **anode, int *cost, int **transl)
{
  static int tr[2] = { 0, -1 };
  *anode = NULL; *cost = 0; *transl = tr; *rhs = rhsb;
  if (which_defect >= 2)
    { /* 2: terminal with a long name as left-hand side; 3: long nonterminal deriving only itself; 4: long unreachable nonterminal */
      if (ri == 0) { ri++; rhsb[0] = which_defect == 3 ? longname2 : longname; rhsb[1] = NULL; return which_defect == 2 ? longname : "S"; }
      if (ri == 1 && which_defect >= 3) { ri++; rhsb[0] = which_defect == 3 ? longname2 : longname; rhsb[1] = NULL; return longname2; }
      return NULL;
    }
  if (which_defect >= 0) { if (ri == 0) { ri++; rhsb[0] = longname; rhsb[1] = NULL; return "S"; } return NULL; }
  if (ri == 0) { ri++; rhsb[0] = "S"; rhsb[1] = tn[0]; rhsb[2] = NULL; return "S"; }
  if (ri == 1) { ri++; rhsb[0] = tn[nterm_big - 1]; rhsb[1] = NULL; return "S"; }
  if (ri == 2) { ri++; rhsb[0] = tn[nterm_big / 2]; rhsb[1] = NULL; return "S"; }
  return NULL;
}
static int codes3[3];

void harness (void)
{
  int mode = (int) sx_param ("mode", 0), rc, amb, i; struct grammar *g; struct yaep_tree_node *root;
  which_defect = -1;
  g = yaep_create_grammar (); sx_assume (g != NULL);
  if (mode == 0)
    { /* symbol names of symbolic length up to 300: the error message must fit its buffer */
      static const int lens[12] = { 0, 1, 50, 100, 150, 170, 185, 199, 200, 201, 250, 300 };
      int L = lens[sx_choice ("namelen", 12)], L2 = lens[sx_choice ("namelen2", 12)];
      for (i = 0; i < L; i++) longname[i] = (char) ('a' + i % 26); longname[L] = 0;
      for (i = 0; i < L2; i++) longname2[i] = (char) ('A' + i % 26); longname2[L2] = 0;
      which_defect = sx_choice ("defect", 5);
      sx_assume (!(which_defect == 1 && strcmp (longname, longname2) == 0));
      ti = ri = 0;
      rc = yaep_read_grammar (g, 1, rd_term, rd_rule);
      sx_observe ("rc", rc);
      sx_assert (strlen (yaep_error_message (g)) <= 200, "C12: error message is NUL-terminated and fits its buffer");
    }
  else if (mode == 1)
    { /* hundreds of terminals, dense (translation vector) or sparse (hash table) codes */
      nterm_big = (int) sx_param ("nterm", 200); sparse = sx_choice ("sparse", 2);
      ti = ri = 0;
      rc = yaep_read_grammar (g, 1, rd_term, rd_rule);
      sx_assert (rc == 0 || rc == YAEP_UNACCESSIBLE_NONTERM, "C12: large grammar defined");
      codes3[0] = sparse ? 1000 + (nterm_big - 1) * 20011 % 2000003 : 10 + nterm_big - 1;
      codes3[1] = sparse ? 1000 : 10;
      /* sparse codes live in a hash table: window + boundary values (see C15); dense codes: all int */
      if (sparse) { static const int pts[6] = { INT_MIN, -1, 999, 1000, 2000003, INT_MAX }; int pick = sx_choice ("pick", 7); codes3[2] = pick < 6 ? pts[pick] : sx_range ("code", 990, 1100); }
      else codes3[2] = sx_int ("code");
      p_n = 3; for (i = 0; i < 3; i++) { p_code[i] = codes3[i]; p_attr[i] = i; }
      yaep_set_lookahead_level (g, sx_choice ("la", 3));
      p_rd = 0; p_nerr = 0;
      rc = yaep_parse (g, p_read_token, p_syntax_error, p_alloc, NULL, &root, &amb);
      sx_observe ("rc", rc);
      sx_assert (rc == 0 || rc == YAEP_INVALID_TOKEN_CODE, "C12: failures are reported through return codes");
    }
  else
    { /* arbitrary setter arguments (recovery_match <= 0 included), then a parse with an error */
      int gi = (int) sx_param ("grammar", 9), m = sx_range ("match", -3, 1);
      g_select (&catalogue[gi]);
      sx_assert (g_define (g, 1) == 0, "catalogue grammar accepted");
      yaep_set_lookahead_level (g, sx_int ("la")); yaep_set_one_parse_flag (g, sx_int ("one")); yaep_set_cost_flag (g, sx_int ("cost"));
      yaep_set_error_recovery_flag (g, sx_int ("rec")); yaep_set_recovery_match (g, m); yaep_set_debug_level (g, sx_range ("dbg", -2, 7));
      p_input_all ((int) sx_param ("len", 3), -1);
      p_rd = 0; p_nerr = 0;
      rc = yaep_parse (g, p_read_token, p_syntax_error, p_alloc, NULL, &root, &amb);
      sx_observe ("rc", rc);
      sx_assert (rc == 0, "C12: arbitrary flag values do not make a parse fail");
    }
  yaep_free_grammar (g);
  p_witness ();
}
