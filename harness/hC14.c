/* C14: grammar objects are independent of each other and of their own past.
   A symbolic history of API calls over up to NOBJ objects; after every call the same call is made
   on a fresh object that has only the target's current definition and settings, and the results
   must agree.  At the end everything is freed and the library must hold no memory. */
#include "ph.h"

#define NOBJ 3
struct ostate { struct grammar *g; int def; int la, one, cost, rec; };   /* def: -1 undefined/bad, else definition id */
static struct ostate ob[NOBJ];

/* definitions: 0,1 good catalogue grammars; 2 repeated terminal code; 3 no rules; 4 self-deriving nonterminal; 5 text with syntax error */
#define NDEF 6
static int def_grammar[2];
static const char *bad_t (int *code) { static int i; const char *n[] = { "a", "b" }; if (g_term_i >= 2) return NULL; i = g_term_i++; *code = 7; return n[i]; }
static const char *one_t (int *code) { if (g_term_i >= 1) return NULL; g_term_i++; *code = 'a'; return "a"; }
static const char *no_rules (const char ***r, const char **a, int *c, int **t) { (void) r; (void) a; (void) c; (void) t; return NULL; }
static const char *loop_rules (const char ***rhs, const char **a, int *c, int **t)
{
  static const char *r0[] = { "S", NULL }, *r1[] = { "a", NULL };
  *a = NULL; *c = 0; *t = NULL;
  if (g_rule_i == 0) { g_rule_i++; *rhs = r0; return "S"; }
  if (g_rule_i == 1) { g_rule_i++; *rhs = r1; return "S"; }
  return NULL;
}
static int define (struct grammar *g, int d)
{
  g_rewind ();
  switch (d)
    {
    case 0: case 1: g_select (&catalogue[def_grammar[d]]); return g_define (g, 1);
    case 2: return yaep_read_grammar (g, 1, bad_t, g_read_rule);
    case 3: return yaep_read_grammar (g, 1, one_t, no_rules);
    case 4: return yaep_read_grammar (g, 1, one_t, loop_rules);
    default: return yaep_parse_grammar (g, 1, "S : 'a' # 0 ; ; |");
    }
}
static int def_ok (int d) { return d == 0 || d == 1; }

/* inputs: per good definition a sentence, a non-sentence and two more sentences */
static const char *inputs[2][4];
static void set_input (int d, int which)
{
  const char *s = inputs[d][which]; int i, j;
  g_select (&catalogue[def_grammar[d]]);
  p_n = 0;
  for (i = 0; s[i]; i++) { for (j = 0; j < G.nsym; j++) if (G.sym[j].kind == SK_TERM && G.sym[j].name[0] == s[i]) break; p_sym[p_n] = j; p_code[p_n] = G.sym[j].code; p_attr[p_n] = 100 + i; p_n++; }
}
struct outcome { int rc, amb, nerr, err[4], ign[4], rec[4]; struct yaep_tree_node *root; };
#define MAXBLK 3000
static void *blocks[MAXBLK]; static int nblocks;
static void *h_alloc (int n) { void *p = malloc ((size_t) n); if (nblocks < MAXBLK) blocks[nblocks++] = p; return p; }
/* the trees of a parse are released before the next call: nothing of a later result may live in them */
static void release_trees (void) { int i; for (i = 0; i < nblocks; i++) free (blocks[i]); nblocks = 0; }
static void do_parse (struct grammar *g, struct outcome *o)
{
  int i;
  p_rd = 0; p_nerr = 0; o->root = NULL; o->amb = 0;
  o->rc = yaep_parse (g, p_read_token, p_syntax_error, h_alloc, NULL, &o->root, &o->amb);
  o->amb = o->amb != 0; o->nerr = p_nerr;
  for (i = 0; i < 4; i++) { o->err[i] = i < p_nerr ? p_err[i] : 0; o->ign[i] = i < p_nerr ? p_ign[i] : 0; o->rec[i] = i < p_nerr ? p_rec[i] : 0; }
}
static int teq (struct yaep_tree_node *x, struct yaep_tree_node *y, int depth)
{
  int k;
  if (depth > 40) return 1;
  if ((x == NULL) != (y == NULL)) return 0;
  if (x == NULL) return 1;
  if (x->type != y->type) return 0;
  switch ((int) x->type)
    {
    case YAEP_TERM: return x->val.term.code == y->val.term.code && x->val.term.attr == y->val.term.attr;
    case YAEP_ANODE:
      if (strcmp (x->val.anode.name, y->val.anode.name) != 0 || x->val.anode.cost != y->val.anode.cost) return 0;
      for (k = 0; x->val.anode.children[k] && y->val.anode.children[k]; k++) if (!teq (x->val.anode.children[k], y->val.anode.children[k], depth + 1)) return 0;
      return !x->val.anode.children[k] && !y->val.anode.children[k];
    case YAEP_ALT: return teq (x->val.alt.node, y->val.alt.node, depth + 1) && teq (x->val.alt.next, y->val.alt.next, depth + 1);
    default: return 1;
    }
}
static void configure (struct grammar *g, const struct ostate *s)
{
  yaep_set_lookahead_level (g, s->la); yaep_set_one_parse_flag (g, s->one); yaep_set_cost_flag (g, s->cost); yaep_set_error_recovery_flag (g, s->rec);
}

void harness (void)
{
  int K = (int) sx_param ("steps", 3), nobj = (int) sx_param ("objects", 2), predef = (int) sx_param ("predef", 0), la0 = (int) sx_param ("la0", 1), step, i; long base;
  def_grammar[0] = (int) sx_param ("g0", 2); def_grammar[1] = (int) sx_param ("g1", 9);
  for (i = 0; i < 2; i++)
    { /* a sentence, a non-sentence and two more sentences of each good definition */
      static const char *const in3[4] = { "a+a*a", "a+*a", "a*a+a", "a" }, *const in10[4] = { "a;a;", "a;ba;", "a;", "a;a;a;" }, *const in7[4] = { "abba", "abab", "baab", "bb" },
        *const in9[4] = { "(a+a)+a", "(a++a)+a", "a+a", "(a)" }, *const in42[4] = { "piqrisviw", "pisviw", "minyizviwtiuris", "rijs" },
        *const in47[4] = { "aiobipciqdireisfitgiuhivkiwlixmiynizAiOBiPCiQDiREiSFiTGiUHiVKiWLiXMiYNiZ", "aiZ", "NiZMiYLiXKiWHiVGiU", "NijZ" },
        *const in43[4] = { "aiobipciqdireisfitgiuhivkiwlixmiyniz", "aiz", "nizmiylixkiw", "hijv" };
      const char *id = catalogue[def_grammar[i]].id; const char *const *in = strcmp (id, "G3") == 0 ? in3 : strcmp (id, "G10") == 0 ? in10 : strcmp (id, "G9") == 0 ? in9 : strcmp (id, "G42") == 0 ? in42 : strcmp (id, "G43") == 0 ? in43 : strcmp (id, "G47") == 0 ? in47 : in7;
      int k;
      sx_assume (in != in7 || strcmp (id, "G7") == 0);
      for (k = 0; k < 4; k++) inputs[i][k] = in[k];
    }
  base = sx_live_heap_blocks ();
  for (i = 0; i < NOBJ; i++) { ob[i].g = NULL; ob[i].def = -1; }
  /* the objects exist (fresh) at the start of the history; `create' is possible again after `free' */
  for (i = 0; i < nobj; i++)
    {
      ob[i].g = yaep_create_grammar (); sx_assume (ob[i].g != NULL); ob[i].la = 1; ob[i].one = 1; ob[i].cost = 0; ob[i].rec = 1;
      if (predef)
        { /* the history starts with defined objects (object i has definition i mod 2) under lookahead level la0 */
          sx_assert (define (ob[i].g, i % 2) == 0, "good definition accepted");
          ob[i].def = i % 2; ob[i].la = la0; yaep_set_lookahead_level (ob[i].g, la0);
        }
    }
  for (step = 0; step < K; step++)
    {
      int act = sx_choice ("action", 15), t = sx_choice ("object", nobj);
      struct ostate *s = &ob[t];
      sx_observe ("action", act); sx_observe ("object", t);
      if (act == 0)
        { /* create */
          sx_assume (s->g == NULL);
          s->g = yaep_create_grammar (); sx_assume (s->g != NULL);
          s->def = -1; s->la = 1; s->one = 1; s->cost = 0; s->rec = 1;
          sx_assert (yaep_error_code (s->g) == 0, "new object has error code 0");
        }
      else if (act == 1)
        { /* free */
          sx_assume (s->g != NULL);
          yaep_free_grammar (s->g); s->g = NULL;
        }
      else if (act <= 7)
        { /* define: 2..7 -> definition 0..5 */
          int d = act - 2, rc, frc; struct grammar *f;
          sx_assume (s->g != NULL);
          rc = define (s->g, d);
          f = yaep_create_grammar (); sx_assume (f != NULL);
          frc = define (f, d);
          yaep_free_grammar (f);
          sx_observe ("rc", rc);
          sx_assert (rc == frc, "definition returns what it returns on a fresh object");
          sx_assert ((rc == 0) == def_ok (d), "good definitions succeed, defective ones fail");
          if (rc != 0) sx_assert (yaep_error_code (s->g) == rc, "failed definition recorded in this object's error state");
          s->def = rc == 0 ? d : -1;
        }
      else if (act <= 10)
        { /* settings: 8 next lookahead level (1 -> 0 -> 2 -> 1), 9 all parses, 10 cost on + recovery off */
          sx_assume (s->g != NULL);
          if (act == 8) { s->la = (s->la + 2) % 3; yaep_set_lookahead_level (s->g, s->la); }
          else if (act == 9) { s->one = !s->one; yaep_set_one_parse_flag (s->g, s->one); }
          else { s->cost = !s->cost; s->rec = !s->rec; yaep_set_cost_flag (s->g, s->cost); yaep_set_error_recovery_flag (s->g, s->rec); }
        }
      else
        { /* parse: 11 sentence, 12 non-sentence, 13 and 14 other sentences (of the current definition, or of definition 0 if there is none) */
          struct outcome a, b; struct grammar *f; int d = s->def >= 0 ? s->def : 0;
          sx_assume (s->g != NULL);
          set_input (d, act - 11);
          do_parse (s->g, &a);
          sx_observe ("rc", a.rc); sx_observe ("nerr", a.nerr);
          if (s->def < 0) sx_assert (a.rc == YAEP_UNDEFINED_OR_BAD_GRAMMAR, "an object without a successful definition refuses to parse");
          else
            {
              f = yaep_create_grammar (); sx_assume (f != NULL);
              sx_assert (define (f, s->def) == 0, "fresh twin accepts the definition");
              configure (f, s);
              set_input (d, act - 11);
              do_parse (f, &b);
              yaep_free_grammar (f);
              sx_assert (a.rc == b.rc && a.amb == b.amb && a.nerr == b.nerr, "parse returns what a fresh object with the same definition and settings returns");
              for (i = 0; i < 4; i++) sx_assert (a.err[i] == b.err[i] && a.ign[i] == b.ign[i] && a.rec[i] == b.rec[i], "same syntax_error arguments as on a fresh object");
              sx_assert (teq (a.root, b.root, 0), "same tree as on a fresh object");
            }
          release_trees ();
        }
    }
  /* free everything in a symbolic order; the library must hold no memory afterwards */
  {
    int first = sx_choice ("free_first", nobj);
    for (i = 0; i < nobj; i++) { int k = (first + i) % nobj; if (ob[k].g) { yaep_free_grammar (ob[k].g); ob[k].g = NULL; } }
  }
  release_trees ();
  sx_observe ("live", sx_live_heap_blocks () - base);
  sx_assert (sx_live_heap_blocks () == base, "after all objects and trees are freed the library holds no memory");
  p_witness ();
}
