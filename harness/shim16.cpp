/* extern "C" wrappers around class yaep (libyaep++) for the differential harness hC16.c */
#include "yaep.h"
extern "C" {
void *xx_create (void) { return new yaep (); }
void xx_delete (void *y) { delete (yaep *) y; }
int xx_error_code (void *y) { return ((yaep *) y)->error_code (); }
const char *xx_error_message (void *y) { return ((yaep *) y)->error_message (); }
int xx_read_grammar (void *y, int strict, const char *(*rt) (int *), const char *(*rr) (const char ***, const char **, int *, int **)) { return ((yaep *) y)->read_grammar (strict, rt, rr); }
int xx_parse_grammar (void *y, int strict, const char *d) { return ((yaep *) y)->parse_grammar (strict, d); }
int xx_set_lookahead_level (void *y, int v) { return ((yaep *) y)->set_lookahead_level (v); }
int xx_set_debug_level (void *y, int v) { return ((yaep *) y)->set_debug_level (v); }
int xx_set_one_parse_flag (void *y, int v) { return ((yaep *) y)->set_one_parse_flag (v); }
int xx_set_cost_flag (void *y, int v) { return ((yaep *) y)->set_cost_flag (v); }
int xx_set_error_recovery_flag (void *y, int v) { return ((yaep *) y)->set_error_recovery_flag (v); }
int xx_set_recovery_match (void *y, int v) { return ((yaep *) y)->set_recovery_match (v); }
int xx_parse (void *y, int (*rt) (void **), void (*se) (int, void *, int, void *, int, void *), void *(*al) (int), void (*fr) (void *), struct yaep_tree_node **root, int *amb)
{ return ((yaep *) y)->parse (rt, se, al, fr, root, amb); }
void xx_free_tree (struct yaep_tree_node *root, void (*fr) (void *), void (*cb) (struct yaep_term *)) { yaep::free_tree (root, fr, cb); }
}
