/* C13: the caller owns tree memory: exact alloc/free pairing, trees outlive the grammar,
   definitions are copied. */
#include "ph.h"

#define MAXB 4000
static struct { void *p; int size; int live; int parse; } blk[MAXB];
static int nblk, cur_parse, bad_free_unknown, bad_free_twice, bad_free_other_parse;
static void *a_alloc (int n)
{
  void *p = malloc ((size_t) n);
  if (nblk < MAXB) { blk[nblk].p = p; blk[nblk].size = n; blk[nblk].live = 1; blk[nblk].parse = cur_parse; nblk++; }
  return p;
}
static int a_find (void *p) { int i; for (i = nblk - 1; i >= 0; i--) if (blk[i].p == p) return i; return -1; }
static void a_free (void *p)
{
  int i = a_find (p);
  if (i < 0) { bad_free_unknown++; return; }
  if (!blk[i].live) { bad_free_twice++; return; }
  if (blk[i].parse != cur_parse) bad_free_other_parse++;
  blk[i].live = 0;
  free (p);
}
static int a_live (int parse) { int i, n = 0; for (i = 0; i < nblk; i++) if (blk[i].live && blk[i].parse == parse) n++; return n; }

/* every node reachable from the root lies in live memory; with the harness allocator it is a live block */
static int use_table, walk_bad, nterm_nodes;
static struct yaep_tree_node *seen[3000]; static int nseen;
static int was_seen (struct yaep_tree_node *n) { int i; for (i = 0; i < nseen; i++) if (seen[i] == n) return 1; if (nseen < 3000) seen[nseen++] = n; return 0; }
static void walk (struct yaep_tree_node *n, int depth)
{
  int k;
  if (n == NULL || depth > 50) return;
  if (was_seen (n)) return;
  if (!sx_mem_valid (n, sizeof (struct yaep_tree_node))) { walk_bad++; return; }
  if (use_table) { int i = a_find (n); if (i < 0 || !blk[i].live) { walk_bad++; return; } }
  switch ((int) n->type)
    {
    case YAEP_TERM: nterm_nodes++; break;
    case YAEP_ANODE:
      if (!sx_mem_valid (n->val.anode.name, 1)) { walk_bad++; return; }
      if (use_table) { int i = a_find ((void *) n->val.anode.name); if (i < 0 || !blk[i].live) walk_bad++; }
      for (k = 0; ; k++)
        {
          if (!sx_mem_valid (&n->val.anode.children[k], sizeof (void *))) { walk_bad++; return; }
          if (n->val.anode.children[k] == NULL) break;
          walk (n->val.anode.children[k], depth + 1);
        }
      break;
    case YAEP_ALT: walk (n->val.alt.node, depth + 1); walk (n->val.alt.next, depth + 1); break;
    default: break;
    }
}
static int check_reachable (struct yaep_tree_node *root) { nseen = 0; walk_bad = 0; nterm_nodes = 0; walk (root, 0); return walk_bad; }
static int termcb_calls, termcb_dup;
static struct yaep_term *tseen[3000];
static void termcb (struct yaep_term *t) { int i; for (i = 0; i < termcb_calls && i < 3000; i++) if (tseen[i] == t) termcb_dup++; if (termcb_calls < 3000) tseen[termcb_calls] = t; termcb_calls++; }

static char namebuf[G_MAXSYM + G_MAXRULE][12];
static char descr[2048];

void harness (void)
{
  int mode = (int) sx_param ("mode", 0), conf, nparse, k, via_text; struct pconf c; struct grammar *g; long base_heap;
  struct yaep_tree_node *root[2] = { NULL, NULL }; int amb, rc, nterm[2], drc;
  struct gram saved;
  p_setup ();
  o_translations ();
  conf = sx_choice ("conf", 12);
  c.la = conf % 3; c.one = (conf / 3) % 2; c.cost = (conf / 6) % 2; c.rec = (int) sx_param ("rec", 1); c.match = 0;
  nparse = 1 + (int) sx_param ("two_parses", 0);
  via_text = (int) sx_param ("via_text", 0);
  use_table = (mode != 2);
  base_heap = sx_live_heap_blocks ();
  g = yaep_create_grammar (); sx_assume (g != NULL);
  /* definition from buffers that are overwritten right after the defining call */
  saved = G;
  if (via_text) { g_describe (descr); drc = yaep_parse_grammar (g, 1, descr); sx_garbage (descr, strlen (descr) + 1 > 64 ? 64 : strlen (descr)); }
  else
    {
      int i;
      for (i = 0; i < G.nsym; i++) { strcpy (namebuf[i], G.sym[i].name); G.sym[i].name = namebuf[i]; }
      for (i = 0; i < G.nrule; i++) if (G.rule[i].anode) { strcpy (namebuf[G_MAXSYM + i], G.rule[i].anode); G.rule[i].anode = namebuf[G_MAXSYM + i]; }
      drc = g_define (g, 1);
      G = saved;
      sx_garbage (namebuf, sizeof namebuf);
      for (i = 0; i <= G_MAXRHS; i++) g_rhsbuf[i] = NULL;
      for (i = 0; i <= G_MAXTR; i++) g_trbuf[i] = 12345;
    }
  sx_assert (drc == 0, "catalogue grammar accepted");
  yaep_set_lookahead_level (g, c.la); yaep_set_one_parse_flag (g, c.one); yaep_set_cost_flag (g, c.cost); yaep_set_error_recovery_flag (g, c.rec);
  for (k = 0; k < nparse; k++)
    {
      cur_parse = k; p_rd = 0; p_nerr = 0;
      if (mode == 0) rc = yaep_parse (g, p_read_token, p_syntax_error, a_alloc, a_free, &root[k], &amb);
      else if (mode == 1) rc = yaep_parse (g, p_read_token, p_syntax_error, a_alloc, NULL, &root[k], &amb);
      else rc = yaep_parse (g, p_read_token, p_syntax_error, NULL, NULL, &root[k], &amb);
      sx_observe ("rc", rc); sx_observe ("root", root[k] != NULL);
      sx_assert (rc == 0, "parse returns 0");
      sx_assert (bad_free_unknown == 0, "parse_free only receives blocks returned by parse_alloc");
      sx_assert (bad_free_twice == 0, "parse_free receives a block at most once");
      sx_assert (bad_free_other_parse == 0, "parse_free only receives blocks of the same yaep_parse call");
      if (root[k] != NULL)
        {
          sx_assert (check_reachable (root[k]) == 0, "everything reachable from the root is allocated when yaep_parse returns");
          nterm[k] = nterm_nodes;
          if (k == 0 && o_nres > 0 && !o_overflow && t_wellformed (root[k], 1) == 0 && !c.cost)
            { int i, in = 0; t_check_cost = 1; for (i = 0; i < o_nres; i++) in |= t_match (root[k], o_res[i], 0); sx_assert (in, "tree unaffected by overwriting the definition inputs"); }
        }
    }
  for (k = 0; k < nparse; k++) if (root[k] != NULL) sx_assert (check_reachable (root[k]) == 0, "earlier trees stay valid after a later parse");
  yaep_free_grammar (g);
  for (k = 0; k < nparse; k++) if (root[k] != NULL) sx_assert (check_reachable (root[k]) == 0, "trees stay valid after yaep_free_grammar");
  if (mode != 1)
    for (k = 0; k < nparse; k++)
      if (root[k] != NULL)
        {
          cur_parse = k; termcb_calls = 0; termcb_dup = 0;
          yaep_free_tree (root[k], mode == 0 ? a_free : NULL, termcb);
          sx_observe ("termcb", termcb_calls);
          sx_assert (termcb_calls == nterm[k] && termcb_dup == 0, "terminal callback runs exactly once per TERM node");
          sx_assert (bad_free_unknown == 0 && bad_free_twice == 0 && bad_free_other_parse == 0, "yaep_free_tree releases every block exactly once");
          if (mode == 0) sx_assert (a_live (k) == 0, "no parse_alloc block of the parse stays unreleased after yaep_free_tree");
        }
  if (mode == 0) for (k = 0; k < nparse; k++) if (root[k] == NULL) sx_assert (a_live (k) == 0, "a parse that returns no tree leaves no parse_alloc block unreleased");
  if (mode == 2) sx_assert (sx_live_heap_blocks () == base_heap, "default allocator: nothing stays allocated after yaep_free_grammar and yaep_free_tree");
  p_witness ();
}
