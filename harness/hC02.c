/* C02: with one parse requested, the tree is the documented translation of a derivation of the input */
#include "ph.h"
void harness (void)
{
  struct pconf c; struct pres r; int bad;
  p_setup ();
  o_translations ();
  sx_assume (o_nres > 0);                      /* sentences only; placed before the parse */
  c.la = sx_choice ("la", 3); c.one = 1; c.cost = 0; c.rec = (int) sx_param ("rec", 0); c.match = 0; c.use_free = 0;
  p_run (&c, 1, &r);        /* with again=1 the second parse of the same object is reported */
  sx_observe ("rc", r.rc); sx_observe ("amb", r.amb);
  sx_assert (r.rc == 0 && p_nerr == 0, "sentence parses without error");
  sx_assert (r.root != NULL, "sentence yields a tree");
  if (r.root != NULL)
    {
      bad = t_wellformed (r.root, 0);
      sx_observe ("bad", bad);
      sx_assert (bad == 0, "tree well-formed: no ALT, NULL-terminated children, NIL/ERROR single, types in range, nodes and names in live memory");
      if (bad == 0)
        {
          t_observe (r.root, 0);
          t_check_cost = 1;
          sx_assert (!o_overflow, "oracle capacity");
          sx_assert (t_in_translations (r.root), "tree is the translation of a derivation (names, order, NIL padding, codes, attributes, rule costs)");
        }
    }
  p_done (&r, &c);
  p_witness ();
}
