/* C09: lookahead level, goto-set caching and debug level never change any result.
   The same symbolic input is parsed under several (lookahead, debug) settings inside one path and
   every observable is compared with the first run; the level is changed after the definition (the
   level in force while the grammar is defined varies too).  With -DYAEP_VERIF the library re-computes the
   successor set on every goto-cache hit and reports a differing set through yaep_verif_report. */
#include "ph.h"

static int cache_hits, cache_mismatch;
void yaep_verif_report (int kind, int a, int b)
{
  if (kind == 1) cache_hits++;
  if (kind == 2) cache_mismatch++;
  (void) a; (void) b;
}

struct snap { int rc, amb, nerr, err[P_MAXERR], ign[P_MAXERR], rec[P_MAXERR]; long ea[P_MAXERR], ia[P_MAXERR], ra[P_MAXERR]; struct yaep_tree_node *root; int ds, dl; };
static struct snap sn[8];

static int deq (int a, int b)
{
  struct yaep_tree_node *x = d_t[a].n, *y = d_t[b].n; int k, r;
  if (x->type != y->type) return 0;
  switch ((int) x->type)
    {
    case YAEP_TERM: return (x->val.term.code == y->val.term.code) & (x->val.term.attr == y->val.term.attr);
    case YAEP_ANODE:
      if (strcmp (x->val.anode.name, y->val.anode.name) != 0 || d_t[a].nch != d_t[b].nch) return 0;
      r = (x->val.anode.cost == y->val.anode.cost);
      for (k = 0; k < d_t[a].nch; k++) r &= deq (d_t[a].ch[k], d_t[b].ch[k]);
      return r;
    default: return 1;
    }
}
static const int las[5] = { 0, 1, 2, -3, 7 };
static const int dbgs[5] = { 0, 1, -1, 6, 3 };
static const int ladef[5] = { -1, 0, 0, 2, 1 };     /* level in force while the grammar is defined (-1: the default) */
void harness (void)
{
  struct pconf c; struct pres r; int i, k, e, sel, nrun = (int) sx_param ("nrun", 5);
  p_setup ();
  sel = sx_choice ("flags", 8);
  c.one = sel & 1; c.cost = (sel >> 1) & 1; c.rec = (sel >> 2) & 1; c.match = 0; c.use_free = 0; c.la = 0;
  d_reset ();
  for (i = 0; i < nrun; i++)
    {
      p_use_raw_la = 1; p_raw_la = las[i % 5]; p_dbg = dbgs[i % 5]; p_la_def = ladef[i % 5];
      p_run (&c, 1, &r);
      sn[i].rc = r.rc; sn[i].amb = r.amb != 0; sn[i].nerr = p_nerr; sn[i].root = r.root;
      for (e = 0; e < p_nerr && e < P_MAXERR; e++) { sn[i].err[e] = p_err[e]; sn[i].ign[e] = p_ign[e]; sn[i].rec[e] = p_rec[e]; sn[i].ea[e] = p_err_attr[e]; sn[i].ia[e] = p_ign_attr[e]; sn[i].ra[e] = p_rec_attr[e]; }
      sn[i].dl = 0;
      if (r.root != NULL && t_wellformed (r.root, 1) == 0) d_denote (r.root, 0, &sn[i].ds, &sn[i].dl);
      yaep_free_grammar (p_g);
      sx_observe ("rc", r.rc); sx_observe ("amb", r.amb != 0); sx_observe ("nerr", p_nerr); sx_observe ("ndenoted", sn[i].dl);
    }
  sx_observe ("cache_hits", cache_hits);
  sx_assert (cache_mismatch == 0, "a reused (cached) Earley set equals the freshly computed one");
  for (i = 1; i < nrun; i++)
    {
      sx_assert (sn[i].rc == sn[0].rc, "same return code for every lookahead/debug level");
      sx_assert (sn[i].amb == sn[0].amb, "same ambiguity flag for every lookahead/debug level");
      sx_assert (sn[i].nerr == sn[0].nerr, "same number of syntax_error calls for every lookahead/debug level");
      if (sn[i].nerr == sn[0].nerr)
        for (e = 0; e < sn[0].nerr && e < P_MAXERR; e++)
          sx_assert ((sn[i].err[e] == sn[0].err[e]) & (sn[i].ign[e] == sn[0].ign[e]) & (sn[i].rec[e] == sn[0].rec[e]) & (sn[i].ea[e] == sn[0].ea[e]) & (sn[i].ia[e] == sn[0].ia[e]) & (sn[i].ra[e] == sn[0].ra[e]),
                     "same syntax_error arguments for every lookahead/debug level");
      sx_assert ((sn[i].root != NULL) == (sn[0].root != NULL), "root NULL-ness independent of lookahead/debug level");
      if (!d_overflow && sn[i].root != NULL && sn[0].root != NULL)
        {
          for (k = 0; k < sn[i].dl; k++) { int in = 0, q; for (q = 0; q < sn[0].dl; q++) in |= deq (d_list[sn[i].ds + k], d_list[sn[0].ds + q]); sx_assert (in, "denoted trees (with costs) independent of lookahead/debug level: no extra tree"); }
          for (k = 0; k < sn[0].dl; k++) { int in = 0, q; for (q = 0; q < sn[i].dl; q++) in |= deq (d_list[sn[0].ds + k], d_list[sn[i].ds + q]); sx_assert (in, "denoted trees (with costs) independent of lookahead/debug level: no missing tree"); }
        }
    }
  p_witness ();
}
