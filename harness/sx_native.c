/* Native implementation of the harness vocabulary: replays one path found by sxvm against the
   real library built by gcc with ASan/UBSan.  Inputs come from $SX_REPLAY (lines "name value",
   in creation order), job parameters from $SX_PARAMS ("a=1,b=2"). */
#include <stdio.h>
#include <stdlib.h>
#include <string.h>
#include "sx.h"

/* the native binary is linked with --wrap=malloc,calloc,realloc,free,_Znwm,_Znam,_ZdlPv,_ZdaPv,_ZdlPvm:
   every allocation of the library and of the harness goes through the counting, failing wrappers below */
extern void *__real_malloc (size_t); extern void *__real_calloc (size_t, size_t); extern void __real_free (void *);
extern void *__real__Znwm (size_t); extern void *__real__Znam (size_t); extern void __real__ZdlPv (void *); extern void __real__ZdaPv (void *);

static FILE *rf;
static int nfail;
static long failk = -1, alloccnt, liveblocks;

static void desync (const char *why, const char *name)
{
  printf ("REPLAY-DESYNC %s %s\n", why, name);
  fflush (stdout);
  _Exit (3);
}

static long next_input (const char *name)
{
  char nm[256]; long long v; char *h;
  if (rf == NULL)
    {
      const char *p = getenv ("SX_REPLAY");
      if (p == NULL || (rf = fopen (p, "r")) == NULL) desync ("cannot open replay file", name);
    }
  if (fscanf (rf, "%255s %lld", nm, &v) != 2) desync ("out of inputs at", name);
  h = strrchr (nm, '#'); if (h) *h = 0;
  if (strcmp (nm, name) != 0) desync ("expected", name);
  return (long) v;
}

int sx_int (const char *name) { return (int) next_input (name); }
long sx_long (const char *name) { return next_input (name); }
int sx_range (const char *name, int lo, int hi)
{
  int v;
  if (lo > hi) { printf ("PATH-ENDED assume\n"); fflush (stdout); _Exit (0); }
  v = (int) next_input (name);
  if (v < lo || v > hi) desync ("value out of range for", name);
  return v;
}
void sx_bytes (void *buf, unsigned long n, const char *name)
{
  unsigned long i;
  for (i = 0; i < n; i++) ((unsigned char *) buf)[i] = (unsigned char) next_input (name);
}
int sx_concretize (int v) { return v; }
long sx_concretize_long (long v) { return v; }
void sx_assume (int c) { if (!c) { printf ("PATH-ENDED assume\n"); fflush (stdout); _Exit (0); } }
void sx_assert (int c, const char *label)
{
  if (!c) { nfail++; printf ("ASSERT-FAIL %s\n", label); fflush (stdout); }
}
void sx_reach (const char *label) { (void) label; }
void sx_observe (const char *tag, long value) { printf ("OBS %s=%ld\n", tag, value); }
void sx_observe_str (const char *tag, const char *s) { printf ("OBS %s=%s\n", tag, s); }
long sx_param (const char *name, long dflt)
{
  const char *p = getenv ("SX_PARAMS"); size_t n = strlen (name);
  while (p && *p)
    {
      if (strncmp (p, name, n) == 0 && p[n] == '=') return atol (p + n + 1);
      p = strchr (p, ','); if (p) p++;
    }
  return dflt;
}
long sx_ite (long c, long a, long b) { return c ? a : b; }
void sx_end_path (void) { printf ("PATH-ENDED end\n"); fflush (stdout); _Exit (0); }
int sx_is_vm (void) { return 0; }
void sx_note (const char *s) { (void) s; }
void sx_garbage (void *buf, unsigned long n) { sx_bytes (buf, n, "garbage"); }

/* allocation wrappers */
void sx_fail_alloc_at (int k) { failk = k; alloccnt = 0; }
long sx_alloc_count (void) { return alloccnt; }
long sx_live_heap_blocks (void) { return liveblocks; }
static int fails (void) { long c = alloccnt++; if (failk >= 0 && c == failk) { failk = -1; return 1; } return 0; }
void *__wrap_malloc (size_t n) { void *p; if (fails ()) return NULL; p = __real_malloc (n); if (p) liveblocks++; return p; }
void *__wrap_calloc (size_t a, size_t b) { void *p; if (fails ()) return NULL; p = __real_calloc (a, b); if (p) liveblocks++; return p; }
void *__wrap_realloc (void *q, size_t n)
{
  void *p;
  if (fails ()) return NULL;
  /* like the VM's model: always move the block */
  p = __real_malloc (n);
  if (p == NULL) return NULL;
  liveblocks++;
  if (q)
    {
#if defined(__SANITIZE_ADDRESS__)
      extern size_t __sanitizer_get_allocated_size (const volatile void *);
      size_t old = __sanitizer_get_allocated_size (q);
#else
      extern size_t malloc_usable_size (void *);
      size_t old = malloc_usable_size (q);
#endif
      memcpy (p, q, old < n ? old : n);
      __real_free (q); liveblocks--;
    }
  return p;
}
void __wrap_free (void *p) { if (p) liveblocks--; __real_free (p); }
void *__wrap__Znwm (size_t n) { void *p; if (fails ()) abort (); p = __real__Znwm (n); liveblocks++; return p; }
void *__wrap__Znam (size_t n) { void *p; if (fails ()) abort (); p = __real__Znam (n); liveblocks++; return p; }
void __wrap__ZdlPv (void *p) { if (p) liveblocks--; __real__ZdlPv (p); }
void __wrap__ZdaPv (void *p) { if (p) liveblocks--; __real__ZdaPv (p); }
void __wrap__ZdlPvm (void *p, size_t n) { (void) n; if (p) liveblocks--; __real__ZdlPv (p); }

int sx_mem_valid (const void *p, unsigned long n)
{
#if defined(__SANITIZE_ADDRESS__)
  extern void *__asan_region_is_poisoned (void *beg, size_t size);
  return p != NULL && __asan_region_is_poisoned ((void *) p, n) == NULL;
#else
  (void) n; return p != NULL;
#endif
}

extern void harness (void);
int main (void)
{
  setvbuf (stdout, NULL, _IOLBF, 0);
  harness ();
  printf ("PATH-DONE fails=%d\n", nfail);
  return 0;
}
