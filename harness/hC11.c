/* C11: a textual description defines exactly the grammar its documented syntax denotes.
   mode 0: a catalogue grammar rendered with symbolic lexical variations is compared with its
           callback-defined twin on every token sequence up to a bound (inside the path);
           with hist=1 another description (rejected at one of several stages, or accepted) is read first;
   mode 1: arbitrary bytes: only documented error codes, line number inside the text;
   mode 2: character constant with a symbolic character;
   mode 3: erroneous descriptions with symbolic white space, newlines and comments between the tokens. */
#include "ph.h"
static char text[4096];
static struct snap1 { int rc, amb, nerr, err0; struct yaep_tree_node *root; } A, B;
static int teq (struct yaep_tree_node *x, struct yaep_tree_node *y, int depth)
{
  int k, r;
  if (depth > 40) return 1;
  if ((x == NULL) != (y == NULL)) return 0;
  if (x == NULL) return 1;
  if (x->type != y->type) return 0;
  switch ((int) x->type)
    {
    case YAEP_TERM: return (x->val.term.code == y->val.term.code) & (x->val.term.attr == y->val.term.attr);
    case YAEP_ANODE:
      if (strcmp (x->val.anode.name, y->val.anode.name) != 0 || x->val.anode.cost != y->val.anode.cost) return 0;
      r = 1;
      for (k = 0; x->val.anode.children[k] && y->val.anode.children[k]; k++) r &= teq (x->val.anode.children[k], y->val.anode.children[k], depth + 1);
      if (x->val.anode.children[k] || y->val.anode.children[k]) return 0;
      return r;
    case YAEP_ALT:
      r = teq (x->val.alt.node, y->val.alt.node, depth + 1);
      return r & teq (x->val.alt.next, y->val.alt.next, depth + 1);
    default: return 1;
    }
}
static void parse_with (struct grammar *g, struct snap1 *s, int one)
{
  yaep_set_one_parse_flag (g, one); yaep_set_error_recovery_flag (g, 0);
  p_rd = 0; p_nerr = 0; s->root = NULL; s->amb = 0;
  s->rc = yaep_parse (g, p_read_token, p_syntax_error, p_alloc, NULL, &s->root, &s->amb);
  s->nerr = p_nerr; s->err0 = p_nerr ? p_err[0] : -1; s->amb = s->amb != 0;
}
static void next_seq (int *idx, int len, int nt) { int k; for (k = 0; k < len; k++) { if (++idx[k] < nt) return; idx[k] = 0; } idx[0] = -1; }

void harness (void)
{
  int mode = (int) sx_param ("mode", 0), strict = 1, rc1, rc2, i;
  struct grammar *g1, *g2;
  if (mode == 0)
    {
      int gi = (int) sx_param ("grammar", 0), maxlen = (int) sx_param ("maxlen", 2), nt, len, next = 256, idx[8], one;
      g_select (&catalogue[gi]);
      int hist = (int) sx_param ("hist", 0);
      g_style = sx_choice ("style", 4);
      if (hist) { g_use_sem = 1; g_comment = 0; g_omit_cost = 0; g_ws = ' '; }
      else
        {
          g_use_sem = sx_choice ("sem", 2); g_comment = sx_choice ("comment", 4); g_omit_cost = sx_choice ("omit_cost", 2);
          g_ws = (char) sx_range ("ws", 9, 32);
          sx_assume (g_ws == ' ' || g_ws == '\t' || g_ws == '\n');
        }
      g_describe (text);
      /* the denoted grammar: implicit codes are 256, 257, ... in order of first appearance */
      if (g_style == 1) for (i = 0; i < G.nsym; i++) if (G.sym[i].kind == SK_TERM && !g_is_charterm (&G.sym[i])) G.sym[i].code = next++;
      g1 = yaep_create_grammar (); g2 = yaep_create_grammar (); sx_assume (g1 != NULL && g2 != NULL);
      if (hist)
        { /* the description is read after another one was read (by the same or another object) and rejected at different
             stages or accepted: the reader keeps its state in file-scope variables */
          static const char *const prior_text[5] = { "S : 'a' # 0 ; ; |", "TERM a; s : a # 5;", "TERM a=1 b=1; s : a;", "S : 'x' 'y' # p(1 0) | ;", "TERM a=5 b c; TERM a=7; s : a;" };
          int prior = sx_choice ("prior", 5), same = sx_choice ("same_obj", 2), rc0; struct grammar *g0 = same ? g1 : yaep_create_grammar ();
          sx_assume (g0 != NULL);
          rc0 = yaep_parse_grammar (g0, 1, prior_text[prior]);
          sx_observe ("rc0", rc0);
          sx_assert ((rc0 == 0) == (prior == 3), "prior description has the expected outcome");
          if (!same) yaep_free_grammar (g0);
        }
      rc1 = yaep_parse_grammar (g1, strict, text);
      rc2 = g_define (g2, strict);
      sx_observe ("rc1", rc1); sx_observe ("rc2", rc2);
      sx_assert (rc1 == rc2, "description and callback definition return the same code");
      sx_assert (rc2 == 0, "catalogue grammar accepted");
      if (rc1 == 0 && rc2 == 0)
        {
          nt = g_nterm ();
          one = sx_choice ("one", 2);
          for (len = 0; len <= (nt > 0 ? maxlen : 0); len++)
            {
              for (i = 0; i < len; i++) idx[i] = 0;
              idx[0] = len ? 0 : 0;
              for (;;)
                {
                  p_n = len;
                  for (i = 0; i < len; i++) { p_sym[i] = g_term (idx[i]); p_code[i] = G.sym[p_sym[i]].code; p_attr[i] = 1000 + i; }
                  parse_with (g1, &A, one); parse_with (g2, &B, one);
                  sx_assert (A.rc == B.rc && A.nerr == B.nerr && A.err0 == B.err0 && A.amb == B.amb, "same parse outcome (code, syntax errors, ambiguity) for description and twin");
                  sx_assert (teq (A.root, B.root, 0), "same tree for description and twin");
                  if (len == 0) break;
                  next_seq (idx, len, nt);
                  if (idx[0] < 0) break;
                }
            }
          sx_observe ("compared", 1);
        }
      yaep_free_grammar (g1); yaep_free_grammar (g2);
    }
  else if (mode == 1)
    {
      int n = (int) sx_param ("nbytes", 2), nl = 0; const char *m; int k, v;
      sx_bytes (text, (unsigned long) n, "byte"); text[n] = 0;
      g1 = yaep_create_grammar (); sx_assume (g1 != NULL);
      rc1 = yaep_parse_grammar (g1, sx_choice ("strict", 2), text);
      sx_observe ("rc", rc1);
      sx_assert (rc1 == 0 || (rc1 >= 3 && rc1 <= 16), "only documented codes for arbitrary text");
      sx_assert (yaep_error_code (g1) == rc1, "error code recorded");
      if (rc1 == YAEP_DESCRIPTION_SYNTAX_ERROR_CODE)
        {
          for (k = 0; k < n; k++) nl += (text[k] == '\n');
          m = yaep_error_message (g1);
          sx_assert (strncmp (m, "description syntax error on ln ", 31) == 0, "syntax error message names a line");
          v = 0; for (k = 31; m[k] >= '0' && m[k] <= '9'; k++) v = v * 10 + (m[k] - '0');
          sx_assert ((v >= 1) & (v <= 1 + nl), "line number lies inside the text");
        }
      yaep_free_grammar (g1);
    }
  else if (mode == 3)
    { /* erroneous descriptions with symbolic layout between the tokens: the reported line lies inside the text */
      static const char *const tmpl[4] = { "TERM a@b@c@= ;", "s : a@b@) ;@", "TERM x@;@s : x@y@= ;", "s@:@a b@c@# 1 2 ;" };
      static const char *const wsv[4] = { " ", "\n", "\n\n", " \n /* c */ " };
      const char *t = tmpl[sx_choice ("template", 4)], *m; int k, n = 0, nl = 0, v; const char *w;
      for (k = 0; t[k]; k++)
        if (t[k] == '@') { for (w = wsv[sx_choice ("ws", 4)]; *w; w++) text[n++] = *w; }
        else text[n++] = t[k];
      text[n] = 0;
      g1 = yaep_create_grammar (); sx_assume (g1 != NULL);
      rc1 = yaep_parse_grammar (g1, 1, text);
      sx_observe ("rc", rc1);
      sx_assert (rc1 == YAEP_DESCRIPTION_SYNTAX_ERROR_CODE, "erroneous description yields the description syntax error code");
      if (rc1 == YAEP_DESCRIPTION_SYNTAX_ERROR_CODE)
        {
          for (k = 0; k < n; k++) nl += (text[k] == '\n');
          m = yaep_error_message (g1);
          sx_assert (strncmp (m, "description syntax error on ln ", 31) == 0, "syntax error message names a line");
          v = 0; for (k = 31; m[k] >= '0' && m[k] <= '9'; k++) v = v * 10 + (m[k] - '0');
          sx_observe ("line", v); sx_observe ("lines", 1 + nl);
          sx_assert ((v >= 1) & (v <= 1 + nl), "line number lies inside the text");
        }
      yaep_free_grammar (g1);
    }
  else
    {
      int c = sx_range ("ch", 1, 127), amb; struct yaep_tree_node *root;
      text[0] = 'S'; text[1] = ':'; text[2] = '\''; text[3] = (char) c; text[4] = '\''; text[5] = '#'; text[6] = '0'; text[7] = ';'; text[8] = 0;
      g1 = yaep_create_grammar (); sx_assume (g1 != NULL);
      rc1 = yaep_parse_grammar (g1, 1, text);
      sx_assert (rc1 == 0, "character constant accepted as a terminal");
      if (rc1 == 0)
        {
          p_n = 1; p_code[0] = c; p_attr[0] = 77; p_rd = 0; p_nerr = 0;
          yaep_set_error_recovery_flag (g1, 0);
          rc2 = yaep_parse (g1, p_read_token, p_syntax_error, p_alloc, NULL, &root, &amb);
          sx_assert (rc2 == 0 && p_nerr == 0 && root != NULL, "the character's code is the terminal's code");
          if (rc2 == 0 && root != NULL) sx_assert (root->type == YAEP_TERM && root->val.term.code == c, "TERM node carries the character code");
        }
      yaep_free_grammar (g1);
    }
  p_witness ();
}
