/* Parser-harness helpers shared by C01-C09, C13, C16: symbolic token input, recording callbacks,
   one parse under a configuration, tree inspection and matching against oracle trees. */
#ifndef PH_H
#define PH_H
#include <stdlib.h>
#include "sx.h"
#include "gram.h"
#include "oracle.h"

#define P_MAXTOK 80
static int p_n;                       /* token count */
static int p_sym[P_MAXTOK];           /* symbol index of each token (concrete per path) */
static int p_code[P_MAXTOK];          /* code delivered to yaep (may be symbolic) */
static long p_attr[P_MAXTOK];         /* attribute delivered (symbolic) */
static int p_rd;
static int p_map[O_MAXN + 1];            /* oracle sequence index -> original token index */

/* input family ALL(len): exact length `len' (job parameter), every token kind chosen by the solver */
static void p_input_all (int len, int first)
{
  int i, nt = g_nterm ();
  p_n = len;
  for (i = 0; i < len; i++)
    {
      int k = (i == 0 && first >= 0) ? first : sx_choice ("tok", nt);
      p_sym[i] = g_term (k);
      p_code[i] = G.sym[p_sym[i]].code;
      p_attr[i] = sx_long ("attr");
    }
}
static void p_to_seq (void) { int i; sx_assume (p_n <= O_MAXN); seqn = p_n; for (i = 0; i < p_n; i++) { seq[i] = p_sym[i]; p_map[i] = i; } }

static int p_read_token (void **attr)
{
  if (p_rd < p_n) { *attr = (void *) p_attr[p_rd]; return p_code[p_rd++]; }
  *attr = NULL;
  return -1;
}

/* recorded syntax_error calls */
#define P_MAXERR 16
static int p_nerr, p_err[P_MAXERR], p_ign[P_MAXERR], p_rec[P_MAXERR];
static long p_err_attr[P_MAXERR], p_ign_attr[P_MAXERR], p_rec_attr[P_MAXERR];
static void p_syntax_error (int err, void *ea, int ign, void *ia, int rec, void *ra)
{
  if (p_nerr < P_MAXERR)
    {
      p_err[p_nerr] = err; p_ign[p_nerr] = ign; p_rec[p_nerr] = rec;
      p_err_attr[p_nerr] = (long) ea; p_ign_attr[p_nerr] = (long) ia; p_rec_attr[p_nerr] = (long) ra;
    }
  p_nerr++;
}
/* with p_track set the tree blocks are recorded so that a harness can release the result of a parse */
#define P_MAXBLK 4000
static int p_track, p_nblk; static void *p_blk[P_MAXBLK];
static void *p_alloc (int n) { void *p = malloc ((size_t) n); if (p_track && p_nblk < P_MAXBLK) p_blk[p_nblk++] = p; return p; }
static void p_release_trees (void) { int i; for (i = 0; i < p_nblk; i++) free (p_blk[i]); p_nblk = 0; }
static void p_free (void *p) { free (p); }

struct pconf { int la, one, cost, rec, match, use_free; };
struct pres { int rc, amb; struct yaep_tree_node *root; };

/* one parse of the current input with a fresh grammar object */
static struct grammar *p_g;
static int p_dbg, p_raw_la, p_use_raw_la;   /* optional: debug level and unclamped lookahead argument */
static int p_again;                         /* optional: report the second parse of the same object */
static int p_la_def = -1;                   /* optional: lookahead level in force while the grammar is defined */
static void p_run (const struct pconf *c, int strict, struct pres *r)
{
  int drc;
  p_g = yaep_create_grammar ();
  sx_assume (p_g != NULL);
  if (p_la_def >= 0) yaep_set_lookahead_level (p_g, p_la_def);
  drc = g_define (p_g, strict);
  sx_assert (drc == 0, "catalogue grammar accepted");
  yaep_set_lookahead_level (p_g, p_use_raw_la ? p_raw_la : c->la);
  if (p_dbg) yaep_set_debug_level (p_g, p_dbg);
  yaep_set_one_parse_flag (p_g, c->one);
  yaep_set_cost_flag (p_g, c->cost);
  yaep_set_error_recovery_flag (p_g, c->rec);
  if (c->match > 0) yaep_set_recovery_match (p_g, c->match);
  if (p_again)
    { /* the object has already parsed the same input once and the owner has released that result:
         the reported parse is the second one (contexts, rule names etc. of the first parse are still in the object) */
      p_track = 1; p_rd = 0; p_nerr = 0; r->root = NULL; r->amb = 0;
      (void) yaep_parse (p_g, p_read_token, p_syntax_error, p_alloc, NULL, &r->root, &r->amb);
      p_release_trees (); p_track = 0;
    }
  p_rd = 0; p_nerr = 0; r->root = NULL; r->amb = 0;
  r->rc = yaep_parse (p_g, p_read_token, p_syntax_error, p_alloc, c->use_free ? p_free : NULL, &r->root, &r->amb);
}
static void p_done (struct pres *r, const struct pconf *c)
{
  yaep_free_grammar (p_g);
  if (c->use_free && r->root) yaep_free_tree (r->root, p_free, NULL);
}

/* ---------------- tree inspection */
static struct yaep_tree_node *t_nil, *t_err;
static int t_bad;          /* structural defect found by the walk */
static int t_nodes;
static int t_nchildren (struct yaep_tree_node *n) { int k = 0; while (n->val.anode.children[k]) k++; return k; }
static void t_walk (struct yaep_tree_node *n, int alt_ok, int depth)
{
  int k;
  if (n == NULL || depth > 64) { t_bad |= 1; return; }
  if (!sx_mem_valid (n, sizeof *n)) { t_bad |= 512; return; }      /* the node lives in released or foreign memory */
  t_nodes++; if (t_nodes > 20000) { t_bad |= 2; return; }
  switch ((int) n->type)
    {
    case YAEP_NIL: if (t_nil && t_nil != n) t_bad |= 4; t_nil = n; break;
    case YAEP_ERROR: if (t_err && t_err != n) t_bad |= 8; t_err = n; break;
    case YAEP_TERM: break;
    case YAEP_ANODE:
      if (n->val.anode.name == NULL || n->val.anode.children == NULL) { t_bad |= 16; break; }
      if (!sx_mem_valid (n->val.anode.name, 1) || !sx_mem_valid (n->val.anode.children, sizeof (void *))) { t_bad |= 512; break; }
      for (k = 0; n->val.anode.children[k]; k++) t_walk (n->val.anode.children[k], alt_ok, depth + 1);
      break;
    case YAEP_ALT:
      if (!alt_ok) { t_bad |= 32; break; }
      {
        struct yaep_tree_node *a; int cnt = 0;
        for (a = n; a; a = a->val.alt.next)
          {
            if (a->type != YAEP_ALT) { t_bad |= 64; break; }
            if (a->val.alt.node == NULL || a->val.alt.node->type == YAEP_ALT) { t_bad |= 128; break; }
            t_walk (a->val.alt.node, alt_ok, depth + 1);
            if (++cnt > 600) { t_bad |= 2; break; }
          }
      }
      break;
    default: t_bad |= 256;
    }
}
static int t_wellformed (struct yaep_tree_node *root, int alt_ok) { t_nil = t_err = NULL; t_bad = 0; t_nodes = 0; t_walk (root, alt_ok, 0); return t_bad; }

/* does the DAG rooted at n denote oracle tree t (choosing one alternative per ALT occurrence)?
   Structure is concrete; attribute/code/cost comparisons may be symbolic, so the result is
   combined without branching.  check_cost: 0 no cost check, 1 node cost == rule cost. */
static int t_check_cost;
static int t_ignore_attr;      /* compare TERM nodes by code only */
static int t_match (struct yaep_tree_node *n, int t, int depth)
{
  const struct otree *o = &o_t[t]; int r, k;
  if (n == NULL || depth > 64) return 0;
  if (n->type == YAEP_ALT)
    {
      struct yaep_tree_node *a; r = 0;
      for (a = n; a; a = a->val.alt.next) { if (a->type != YAEP_ALT) return 0; r |= t_match (a->val.alt.node, t, depth + 1); }
      return r;
    }
  switch (o->kind)
    {
    case OT_NIL: return n->type == YAEP_NIL;
    case OT_ERR: return n->type == YAEP_ERROR;
    case OT_TERM:
      if (n->type != YAEP_TERM) return 0;
      if (t_ignore_attr) return n->val.term.code == p_code[p_map[o->pos]];
      return (n->val.term.code == p_code[p_map[o->pos]]) & ((long) n->val.term.attr == p_attr[p_map[o->pos]]);
    default:
      if (n->type != YAEP_ANODE) return 0;
      if (strcmp (n->val.anode.name, G.rule[o->rule].anode) != 0) return 0;
      if (t_nchildren (n) != o->nch) return 0;
      r = 1;
      if (t_check_cost == 1) r &= (n->val.anode.cost == G.rule[o->rule].cost);
      for (k = 0; k < o->nch; k++) r &= t_match (n->val.anode.children[k], o->ch[k], depth + 1);
      return r;
    }
}
/* is n (without ALT below) one of the oracle's translations? */
static int t_in_translations (struct yaep_tree_node *n)
{
  int i, r = 0;
  for (i = 0; i < o_nres; i++) r |= t_match (n, o_res[i], 0);
  return r;
}

/* ---------------- enumeration of the trees denoted by a DAG (one alternative per ALT occurrence) */
#define D_MAXT 4000
#define D_MAXL 30000
struct dtree { struct yaep_tree_node *n; short nch; short ch[G_MAXTR + 1]; };
static struct dtree d_t[D_MAXT]; static int d_nt;
static short d_list[D_MAXL]; static int d_nlist; static int d_overflow;
static int d_mk (struct yaep_tree_node *n, int nch, const short *ch)
{
  int i, k;
  for (i = 0; i < d_nt; i++)
    if (d_t[i].n == n && d_t[i].nch == nch) { for (k = 0; k < nch; k++) if (d_t[i].ch[k] != ch[k]) break; if (k == nch) return i; }
  if (d_nt >= D_MAXT) { d_overflow = 1; return 0; }
  d_t[d_nt].n = n; d_t[d_nt].nch = (short) nch; for (k = 0; k < nch; k++) d_t[d_nt].ch[k] = ch[k];
  return d_nt++;
}
/* returns list (start,len) of denoted trees of n */
static void d_denote (struct yaep_tree_node *n, int depth, int *start, int *len)
{
  short out[700]; int nout = 0, q;
  if (depth > 40) { d_overflow = 1; *start = 0; *len = 0; return; }
  if (n->type == YAEP_ALT)
    {
      struct yaep_tree_node *a;
      for (a = n; a; a = a->val.alt.next)
        {
          int s, l, i;
          d_denote (a->val.alt.node, depth + 1, &s, &l);
          for (i = 0; i < l; i++) { for (q = 0; q < nout; q++) if (out[q] == d_list[s + i]) break; if (q == nout) { if (nout < 700) out[nout++] = d_list[s + i]; else d_overflow = 1; } }
        }
    }
  else if (n->type == YAEP_ANODE)
    {
      int nch = t_nchildren (n), cs[G_MAXTR + 1], cl[G_MAXTR + 1], idx[G_MAXTR + 1], k; short ch[G_MAXTR + 1];
      if (nch > G_MAXTR) { d_overflow = 1; *start = 0; *len = 0; return; }
      for (k = 0; k < nch; k++) { d_denote (n->val.anode.children[k], depth + 1, &cs[k], &cl[k]); idx[k] = 0; if (cl[k] == 0) { *start = 0; *len = 0; return; } }
      for (;;)
        {
          for (k = 0; k < nch; k++) ch[k] = d_list[cs[k] + idx[k]];
          if (nout < 700) out[nout++] = (short) d_mk (n, nch, ch); else d_overflow = 1;
          for (k = 0; k < nch; k++) { if (++idx[k] < cl[k]) break; idx[k] = 0; }
          if (k == nch) break;
        }
    }
  else out[nout++] = (short) d_mk (n, 0, NULL);
  if (d_nlist + nout > D_MAXL) { d_overflow = 1; nout = 0; }
  *start = d_nlist; *len = nout;
  for (q = 0; q < nout; q++) d_list[d_nlist++] = out[q];
}
/* denoted tree d equals oracle tree t? */
static int d_match (int d, int t)
{
  const struct dtree *D = &d_t[d]; const struct otree *o = &o_t[t]; struct yaep_tree_node *n = D->n; int r, k;
  switch (o->kind)
    {
    case OT_NIL: return n->type == YAEP_NIL;
    case OT_ERR: return n->type == YAEP_ERROR;
    case OT_TERM: if (n->type != YAEP_TERM) return 0; if (t_ignore_attr) return n->val.term.code == p_code[p_map[o->pos]]; return (n->val.term.code == p_code[p_map[o->pos]]) & ((long) n->val.term.attr == p_attr[p_map[o->pos]]);
    default:
      if (n->type != YAEP_ANODE || strcmp (n->val.anode.name, G.rule[o->rule].anode) != 0 || D->nch != o->nch) return 0;
      r = 1;
      if (t_check_cost == 1) r &= (n->val.anode.cost == G.rule[o->rule].cost);
      for (k = 0; k < o->nch; k++) r &= d_match (D->ch[k], o->ch[k]);
      return r;
    }
}
static void d_reset (void) { d_nt = 0; d_nlist = 0; d_overflow = 0; }

/* observable summary of a tree for the VM-vs-native trace comparison */
static void t_observe (struct yaep_tree_node *n, int depth)
{
  int k;
  if (n == NULL) { sx_observe ("node", -1); return; }
  if (depth > 30) return;
  sx_observe ("node", (long) n->type);
  switch ((int) n->type)
    {
    case YAEP_TERM: sx_observe ("code", n->val.term.code); sx_observe ("attr", (long) n->val.term.attr); break;
    case YAEP_ANODE:
      sx_observe_str ("name", n->val.anode.name); sx_observe ("cost", n->val.anode.cost);
      for (k = 0; n->val.anode.children[k]; k++) t_observe (n->val.anode.children[k], depth + 1);
      sx_observe ("end", k);
      break;
    case YAEP_ALT:
      { struct yaep_tree_node *a; for (a = n; a; a = a->val.alt.next) t_observe (a->val.alt.node, depth + 1); sx_observe ("endalt", 0); }
      break;
    default: break;
    }
}
static void p_observe_errors (void)
{
  int i;
  sx_observe ("nerr", p_nerr);
  for (i = 0; i < p_nerr && i < P_MAXERR; i++)
    { sx_observe ("err", p_err[i]); sx_observe ("ign", p_ign[i]); sx_observe ("rec", p_rec[i]); sx_observe ("erra", p_err_attr[i]); sx_observe ("igna", p_ign_attr[i]); sx_observe ("reca", p_rec_attr[i]); }
}

/* input family NEAR(k): a listed (near-)sentence with k symbolic edits (substitute a token kind, or
   delete the token) at symbolic positions */
static const char *const near_bases[][4] = {
  /* G1 */ { "aaaaaaaa", "abababab", "aaaabaaa", "aaaaaaaaaaaaaaaaaaaaaaaa" }, /* G2 */ { "aaaaaaab", "aaab", 0, 0 }, /* G3 */ { "a+a*a+a", "a*a+a*a+a", "a+a+a+a", 0 },
  /* G4 */ { "aba", "ab", 0, 0 }, /* G5 */ { "aaabbb", "aabb", "aaaabbb", 0 }, /* G6 */ { "bbbbbba", "bba", 0, 0 }, /* G7 */ { "abbaabba", "abaaba", "aabbbbaa", 0 },
  /* G8 */ { "iixeixex", "iiixexex", 0, 0 }, /* G9 */ { "(a+a)+(a+a)", "(a+(a+a))+a", "a+(a+a+a", "(a++a)+(+a)" }, /* G10 */ { "a;a;a;a;", "a;bbb;a;bbb;", "a;bb;a;", "a;ab;a;a;" },
  /* G11 */ { "axy", "axz", 0, 0 }, /* G12 */ { "xabcyabd", "xabcxabc", "xacyad", "xabcyad" }, /* G13 */ { "aab", "ba", "cca", "ca" }, /* G14 */ { "aaaaaa", "baaaa", "bbaaa", 0 },
  /* G15 */ { "(a+a)*a+a", "a*(a+a)*(a+a)", "a+a*a+a*a+a", "(a+a*(a+a))" }, /* G16 */ { "a;a;a;a;", "a;ba;a;", 0, 0 }, /* G17 */ { "abcd", "bcacdd", 0, 0 }, /* G18 */ { "aa", "a", 0, 0 },
  /* G19 */ { "xabcxabcyabd", "xacyadxacyad", "xabcyabdxabc", "yadyadyad" },
  /* G20 */ { "nz", "ny", "nx", 0 }, /* G21 */ { "paqraq", "paxpaq", "raeqpaq", "paqpaq" }, /* G22 */ { "aabc", "abc", "aaabc", "aaab" },
  /* G23 */ { "aaa", "aaaa", "aa", 0 }, /* G24 */ { "(a))", "(at,(a),a)a", "(a,a", "(a,at)" }, /* G25 */ { "bca", "abcd", "bcd", "bcad" },
  /* G26 */ { "a", 0, 0, 0 }, /* G27 */ { "yyy", "yyyyy", 0, 0 },
  /* G28 */ { "aaa", "aaaa", 0, 0 }, /* G29 */ { "ab", "acb", "abc", "a" }, /* G30 */ { "abcxyyr", "abcd", "abxq", "abcxr" },
    /* G31 */ { "xxbq", "xxbp", "xbp", "xxnbq" }, /* G32 */ { "x", "xd", "xdcbat", "xt" },
  /* G33 */ { "a*a+a", "a+a*a+a", "a*a+a*a+a", "a*a+a+a" },
  /* G34 */ { "(a++a)+(+a)", "(a+)+(a", "(+a)", "((+)" },
  /* G35 */ { "apqdapqdbpqdz", "bpqdz", "apqbpqdz", "apqdbpqd" }, /* G36 */ { "pzzdezxqzy", "pzxqzzdezy", "pzxqzx", "pzzzdezzxpzx" },
  /* G37 */ { "abcdefx", "abcdeffx", "abcdex", "abcdef" }, /* G38 */ { "pijqrisviw", "tkutijuris", "piqriu", "vkwtiw" },
  /* G39 */ { "b", "bx", 0, 0 },
  /* G40 */ { "xa", "xab", 0, 0 }, /* G41 */ { "ab", "atb", "aqb", "arb" }, /* G42 */ { "piqrisviw", "mijnyiz", "tiuviwyizminpiq", "piz" },
  /* G43 */ { "aiobipcijq", "nizmiylix", "aiz", "kiwhivgiu" }, /* G44 */ { "aaaaa", "aaaaaaa", 0, 0 }, /* G45 */ { "", 0, 0, 0 }, /* G46 */ { "bzbzb", "zzb", 0, 0 }, /* G47 */ { "aiobipNiZ", "NiZMiY", 0, 0 },
};
/* input family REP(m): m fragments, each chosen by the solver from the grammar's list, then a tail - long inputs with
   many repeated fragments (the goto cache and the dynamic-lookahead context table only matter there) */
struct repfrag { const char *gid; const char *frag[6]; const char *tail[3]; };
static const struct repfrag rep_frags[] = {
  { "G10", { "a;", "bbb;", "ab;", "a", 0, 0 }, { "", "a;", 0 } },
  { "G19", { "xabc", "yabd", "xac", "yad", "xabd", 0 }, { "", "xa", 0 } },
  { "G35", { "apqd", "bpqd", "apd", 0, 0, 0 }, { "z", "", "zz" } },
  { "G36", { "pzx", "pzzzzzdezx", "qzzdezy", "qzy", "pzzdezx", "pzy" }, { "", "y", "x" } },
  { "G38", { "piq", "ris", "tiu", "viw", "rijs", "tku" }, { "", "q", 0 } },
  { "G42", { "piq", "min", "yiz", "viw", "tiju", "ris" }, { "", "q", 0 } },
};
static int p_lookup_term (char c) { int j; for (j = 0; j < G.nsym; j++) if (G.sym[j].kind == SK_TERM && G.sym[j].name[0] == c && G.sym[j].name[1] == 0) return j; return -1; }
static void p_input_rep (int m, int nfrag, int frag0)
{
  const struct repfrag *rf = NULL; int i, k, nf = 0, ntl = 0; const char *s;
  for (i = 0; i < (int) (sizeof rep_frags / sizeof rep_frags[0]); i++) if (strcmp (rep_frags[i].gid, G.id) == 0) rf = &rep_frags[i];
  sx_assume (rf != NULL);
  while (nf < 6 && rf->frag[nf]) nf++;
  while (ntl < 3 && rf->tail[ntl]) ntl++;
  if (nfrag > 0 && nfrag < nf) nf = nfrag;
  p_n = 0;
  for (k = 0; k <= m; k++)
    {
      s = k < m ? rf->frag[k == 0 && frag0 >= 0 ? (sx_assume (frag0 < nf), frag0) : sx_choice ("frag", nf)] : rf->tail[sx_choice ("tail", ntl)];
      for (i = 0; s[i]; i++) { int j = p_lookup_term (s[i]); sx_assume (j >= 0 && p_n < P_MAXTOK); p_sym[p_n++] = j; }
    }
  for (i = 0; i < p_n; i++) { p_code[i] = G.sym[p_sym[i]].code; p_attr[i] = sx_long ("attr"); }
}
static void p_input_near (int gi, int base, int k)
{
  const char *b = near_bases[gi][base]; int i, j, e, nt = g_nterm ();
  sx_assume (b != NULL);
  p_n = 0;
  for (i = 0; b[i]; i++)
    {
      for (j = 0; j < G.nsym; j++) if (G.sym[j].kind == SK_TERM && G.sym[j].name[0] == b[i] && G.sym[j].name[1] == 0) break;
      sx_assume (j < G.nsym);
      p_sym[p_n++] = j;
    }
  for (e = 0; e < k; e++)
    {
      int pos = sx_choice ("pos", p_n), sub = sx_choice ("sub", nt + 1);
      if (sub == nt) { for (i = pos; i + 1 < p_n; i++) p_sym[i] = p_sym[i + 1]; p_n--; }
      else p_sym[pos] = g_term (sub);
    }
  for (i = 0; i < p_n; i++) { p_code[i] = G.sym[p_sym[i]].code; p_attr[i] = sx_long ("attr"); }
}
/* common prologue: catalogue grammar + ALL(len) or NEAR(k) input from the job parameters */
static void p_setup (void)
{
  int gi = (int) sx_param ("grammar", 0), len = (int) sx_param ("len", 2), first = (int) sx_param ("first", -1), base = (int) sx_param ("base", -1);
  g_select (&catalogue[gi]);
  p_again = (int) sx_param ("again", 0);
  g_pad = (int) sx_param ("pad", 0);
  if (sx_param ("rep", 0) > 0) p_input_rep ((int) sx_param ("rep", 0), (int) sx_param ("nfrag", 0), (int) sx_param ("frag0", -1));
  else if (base >= 0) p_input_near (gi, base, (int) sx_param ("edits", 1));
  else p_input_all (len, first);
  p_to_seq ();
}
static void p_witness (void) { if (sx_param ("witness", 0)) sx_assert (0, "witness"); }
#endif
