/* Symbolic grammar family SG(R, L) (DESIGN.md section 5): the grammar itself is chosen by the solver -
   up to R rules over the symbols {S, A, a, b}, right-hand sides of up to L symbols, abstract node or
   not, one of several translation shapes.  One path = one grammar that yaep accepts; inside the path
   every token sequence over {a, b} up to `maxlen' is parsed under lookahead 0, 1, 2 and compared with
   the oracle.  Parameter `prop' selects the assertions: 1 recognition (C01), 2 single tree (C02),
   3 all-parses DAG (C03), 5 ambiguity flag (C05). */
#include "ph.h"

static const char *const anames[4] = { "n0", "n1", "n2", "n3" };
static void build_grammar (int maxr, int maxl, int with_trans)
{
  int r, k, nr;
  memset (&G, 0, sizeof G);
  G.id = "SG"; G.nsym = 4;
  G.sym[0].name = "a"; G.sym[0].kind = SK_TERM; G.sym[0].code = 'a';
  G.sym[1].name = "b"; G.sym[1].kind = SK_TERM; G.sym[1].code = 'b';
  G.sym[2].name = "S"; G.sym[2].kind = SK_NT; G.sym[2].code = -1;
  G.sym[3].name = "A"; G.sym[3].kind = SK_NT; G.sym[3].code = -1;
  nr = sx_param ("nrules", -1) > 0 ? (int) sx_param ("nrules", -1) : 1 + sx_choice ("nrules", maxr);
  G.nrule = nr;
  for (r = 0; r < nr; r++)
    {
      struct grule *R = &G.rule[r];
      R->lhs = r == 0 ? 2 : (r == 1 && sx_param ("lhs1", -1) >= 0) ? 2 + (int) sx_param ("lhs1", -1) : 2 + sx_choice ("lhs", 2);
      R->n = (r == 0 && sx_param ("len0", -1) >= 0) ? (int) sx_param ("len0", -1) : (r == 1 && sx_param ("len1", -1) >= 0) ? (int) sx_param ("len1", -1) : sx_choice ("rhslen", maxl + 1);
      for (k = 0; k < R->n; k++) R->rhs[k] = sx_choice ("rhs", 4);
      R->anode = NULL; R->cost = 0; R->ntr = 0;
      if (with_trans)
        {
          int shape = sx_choice ("shape", 5);
          switch (shape)
            {
            case 0: break;                                                   /* no abstract node, no translation: nil */
            case 1: if (R->n > 0) { R->ntr = 1; R->tr[0] = R->n - 1; } break;  /* pass the last symbol through */
            case 2: R->anode = anames[r]; R->cost = 1; R->ntr = R->n; for (k = 0; k < R->n; k++) R->tr[k] = k; break;          /* identity */
            case 3: R->anode = anames[r]; R->cost = 1; R->ntr = R->n; for (k = 0; k < R->n; k++) R->tr[k] = R->n - 1 - k; break; /* reversed */
            default: R->anode = anames[r]; R->cost = 1; R->ntr = 2; R->tr[0] = NILTR; R->tr[1] = R->n > 0 ? 0 : NILTR; break;  /* nil padded, partial */
            }
        }
      else if (R->n > 0) { R->anode = anames[r]; R->cost = 1; R->ntr = 1; R->tr[0] = 0; }
    }
}
static void next_seq (int *idx, int len) { int k; for (k = 0; k < len; k++) { if (++idx[k] < 2) return; idx[k] = 0; } idx[0] = -1; }

void harness (void)
{
  int prop = (int) sx_param ("prop", 1), maxr = (int) sx_param ("maxr", 2), maxl = (int) sx_param ("maxl", 2), maxlen = (int) sx_param ("maxlen", 3);
  int strict = sx_choice ("strict", 2), la, len, i, idx[8], rc, nparsed = 0; struct grammar *g[3];
  build_grammar (maxr, maxl, prop != 1);
  for (la = 0; la < 3; la++)
    {
      g[la] = yaep_create_grammar (); sx_assume (g[la] != NULL);
      rc = g_define (g[la], strict);
      if (rc != 0) sx_end_path ();                    /* grammars that yaep rejects are C10's subject */
      yaep_set_lookahead_level (g[la], la);
    }
  for (len = 0; len <= maxlen; len++)
    {
      for (i = 0; i < len; i++) idx[i] = 0;
      for (;;)
        {
          int ok, nt, nd = 0;
          p_n = len;
          for (i = 0; i < len; i++) { p_sym[i] = idx[i]; p_code[i] = G.sym[idx[i]].code; p_attr[i] = 1000 + i; }
          p_to_seq ();
          if (prop == 1) ok = o_sentence (); else { o_translations (); ok = o_nres > 0; }
          nt = prop == 1 ? 0 : o_nres;
          if (prop == 5 && ok) nd = o_derivations ();
          for (la = 0; la < 3; la++)
            {
              struct yaep_tree_node *root = NULL; int amb = 0, rec, one;
              for (rec = 0; rec < (prop == 1 ? 2 : 1); rec++)
                for (one = (prop == 3 ? 0 : 1); one >= (prop == 2 ? 1 : 0); one--)
                  {
                    if (prop != 1 && !ok) continue;
                    yaep_set_error_recovery_flag (g[la], rec); yaep_set_one_parse_flag (g[la], one);
                    p_rd = 0; p_nerr = 0; root = NULL; amb = 0;
                    rc = yaep_parse (g[la], p_read_token, p_syntax_error, p_alloc, NULL, &root, &amb);
                    nparsed++;
                    sx_assert (rc == 0, "SG: parse returns 0");
                    if (prop == 1)
                      {
                        if (!rec) { sx_assert ((root != NULL) == ok, "SG recovery off: root non-NULL iff sentence"); sx_assert (p_nerr == (ok ? 0 : 1), "SG recovery off: one syntax_error call iff non-sentence"); }
                        else { sx_assert (root != NULL, "SG recovery on: root non-NULL"); sx_assert ((p_nerr == 0) == ok, "SG recovery on: syntax_error called iff non-sentence"); }
                      }
                    else
                      {
                        sx_assert (root != NULL && p_nerr == 0, "SG: sentence yields a tree");
                        if (root == NULL || o_overflow) continue;
                        if (prop == 2)
                          {
                            int bad = t_wellformed (root, 0);
                            sx_assert (bad == 0, "SG: single tree well-formed");
                            if (bad == 0) { t_check_cost = 1; sx_assert (t_in_translations (root), "SG: single tree is the translation of a derivation"); }
                          }
                        else if (prop == 3)
                          {
                            int bad = t_wellformed (root, 1), s, l, k, q;
                            sx_assert (bad == 0, "SG: DAG well-formed");
                            if (bad == 0)
                              {
                                t_check_cost = 1;
                                for (q = 0; q < o_nres; q++) sx_assert (t_match (root, o_res[q], 0), "SG: no translation is missing from the DAG");
                                d_reset (); d_denote (root, 0, &s, &l);
                                if (!d_overflow) for (k = 0; k < l; k++) { int in = 0; for (q = 0; q < o_nres; q++) in |= d_match (d_list[s + k], o_res[q]); sx_assert (in, "SG: no denoted tree is spurious"); }
                              }
                          }
                        else
                          {
                            sx_assert (!(amb != 0) || nd >= 2, "SG: ambiguity flag set only if there are two derivations");
                            sx_assert (!(nt >= 2) || amb != 0, "SG: ambiguity flag set when two derivations translate differently");
                          }
                      }
                  }
            }
          if (len == 0) break;
          next_seq (idx, len);
          if (idx[0] < 0) break;
        }
    }
  sx_observe ("parses", nparsed);
  for (la = 0; la < 3; la++) yaep_free_grammar (g[la]);
  p_witness ();
}
