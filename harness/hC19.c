/* C19 (C implementations; hC19x.cpp compiles the same source against the C++ classes): hash table, object stack and variable-length object keep their
   abstract contents through any bounded history of operations. */
#include <stdlib.h>
#include <string.h>
#include "sx.h"
#include "allocate.h"
#include "hashtab.h"
#include "objstack.h"
#include "vlobject.h"
#ifdef __cplusplus
/* the C++ containers are driven through the same macro vocabulary that yaep.cpp uses */
#define VLO_CREATE( v, allocator, len ) ( v ) = new class vlo( allocator, len )
#define VLO_DELETE(vlo) delete vlo
#define VLO_LENGTH(vlo) (vlo)->length ()
#define VLO_BEGIN(vlo) (vlo)->begin ()
#define VLO_ADD_MEMORY(vlo, addr, size) (vlo)->add_memory (addr, size)
#define VLO_ADD_BYTE(vlo, b) (vlo)->add_byte (b)
#define VLO_ADD_STRING(vlo, s) (vlo)->add_string (s)
#define VLO_EXPAND(vlo, size) (vlo)->expand (size)
#define VLO_SHORTEN(vlo, size) (vlo)->shorten (size)
#define VLO_NULLIFY(vlo) (vlo)->nullify ()
#define VLO_TAILOR(vlo) (vlo)->tailor ()
#define OS_CREATE( o, allocator, len ) ( o ) = new class os( allocator, len )
#define OS_EMPTY(os) (os)->empty ()
#define OS_DELETE(os) delete os
#define OS_TOP_BEGIN(os) (os)->top_begin ()
#define OS_TOP_LENGTH(os) (os)->top_length ()
#define OS_TOP_ADD_MEMORY(os, addr, size) (os)->top_add_memory (addr, size)
#define OS_TOP_ADD_STRING(os, str) (os)->top_add_string (str)
#define OS_TOP_ADD_BYTE(os, b) (os)->top_add_byte (b)
#define OS_TOP_FINISH(os) (os)->top_finish ()
#define OS_TOP_EXPAND(os, size) (os)->top_expand (size)
#define OS_TOP_SHORTEN(os, size) (os)->top_shorten (size)
#define OS_TOP_NULLIFY(os) (os)->top_nullify ()
#define create_hash_table( allocator, size, hash, eq ) new hash_table( allocator, size, hash, eq )
#define empty_hash_table(tab) (tab)->empty ()
#define delete_hash_table(tab) delete tab
#define find_hash_table_entry(tab, el, res_p) (tab)->find_entry(el, res_p)
#define remove_element_from_hash_table_entry(tab, el) (tab)->remove_element_from_entry (el)
#define hash_table_elements_number(tab) (tab)->elements_number ()
#define hash_table_size(tab) (tab)->size ()
typedef hash_table *hash_table_t;
typedef class os *OSV; typedef class vlo *VLV;
extern "C" void harness (void);
#else
typedef os_t OSV; typedef vlo_t VLV;
#endif

/* ---------------- hash table: elements with symbolic hash values */
#define NEL 5
struct el { int key; unsigned hash; };
static struct el els[NEL];
static unsigned h_fn (hash_table_entry_t e) { return ((const struct el *) e)->hash; }
static int eq_fn (hash_table_entry_t a, hash_table_entry_t b) { return ((const struct el *) a)->key == ((const struct el *) b)->key; }
static int present[NEL];
static void check_table (hash_table_t t, int nel)
{
  int i, cnt = 0;
  for (i = 0; i < nel; i++)
    {
      hash_table_entry_t *e = find_hash_table_entry (t, &els[i], 0);
      if (present[i]) { cnt++; sx_assert (*e == (hash_table_entry_t) &els[i], "an inserted and not removed element is found at its stored address"); }
      else sx_assert (*e == NULL, "an element that was never inserted or was removed is not found");
    }
  sx_assert (hash_table_elements_number (t) == (size_t) cnt, "elements number equals the number of inserted and not removed elements");
}
static const int szs[6] = { 0, 1, 15, 16, 17, 24 };
static int pick_op (int s, const char *nm, int n) { int f = (int) sx_param ("op0", -1); return (s == 0 && f >= 0) ? f : sx_choice (nm, n); }
static void hash_history (YaepAllocator *al)
{
  int K = (int) sx_param ("steps", 5), nel = (int) sx_param ("elements", 4), hmax = (int) sx_param ("hmax", 15), i, s;
  hash_table_t t;
  for (i = 0; i < nel; i++) { els[i].key = i; els[i].hash = hmax > 0 ? (unsigned) sx_range ("hash", 0, hmax) : (unsigned) sx_int ("hash"); present[i] = 0; }
  t = create_hash_table (al, (size_t) sx_param ("size", 0), h_fn, eq_fn);
  for (s = 0; s < K; s++)
    {
      int op = pick_op (s, "op", 4), e = (s == 0 && sx_param ("el0", -1) >= 0) ? (int) sx_param ("el0", -1) : sx_choice ("el", nel);
      sx_observe ("op", op); sx_observe ("el", e);
      if (op == 0)
        { /* insert (find with reserve, store if absent) */
          hash_table_entry_t *p = find_hash_table_entry (t, &els[e], 1);
          if (present[e]) sx_assert (*p == (hash_table_entry_t) &els[e], "reserve-find of a present element returns its entry");
          else { sx_assert (*p == NULL, "reserve-find of an absent element returns an empty entry"); *p = (hash_table_entry_t) &els[e]; present[e] = 1; }
        }
      else if (op == 1)
        {
          hash_table_entry_t *p = find_hash_table_entry (t, &els[e], 0);
          sx_assert ((*p != NULL) == present[e], "find reports presence exactly");
        }
      else if (op == 2) { sx_assume (present[e]); remove_element_from_hash_table_entry (t, &els[e]); present[e] = 0; }
      else { sx_assume (e == 0); empty_hash_table (t); for (i = 0; i < nel; i++) present[i] = 0; }
      check_table (t, nel);
    }
  sx_observe ("size", (long) hash_table_size (t));
  delete_hash_table (t);
}


/* ---------------- hash table, inductive step: ONE operation from an ARBITRARY table state that
   satisfies the representation invariant.  Slot contents are chosen by the solver, the elements'
   hash values are symbolic; the invariant is assumed before and asserted after the operation
   together with the abstract effect.  One step from every invariant state covers histories of any
   length for the table size at hand. */
#ifndef __cplusplus
#define ISZ 24
static int slot[ISZ];                 /* per path: -1 empty, -2 deleted, else element index */
static hash_table_entry_t deleted_marker (void) { return (hash_table_entry_t) 1; }
/* slot holds EMPTY?  idx may be symbolic: branch-free disjunction over the concrete slot states */
static int is_empty_at (unsigned idx, int size) { int s, r = 0; for (s = 0; s < size; s++) if (slot[s] == -1) r |= (idx == (unsigned) s); return r; }
/* is element e (at slot pos) reachable on its own probe sequence before the first EMPTY slot? */
static int reachable (int e, int pos, int size)
{
  unsigned h = els[e].hash, idx = h % (unsigned) size, step = 1 + h % (unsigned) (size - 2); int k, r = 0, blocked = 0;
  for (k = 0; k < size; k++)
    {
      r |= (!blocked) & (idx == (unsigned) pos);
      blocked |= is_empty_at (idx, size);
      idx += step; idx = (unsigned) sx_ite (idx >= (unsigned) size, idx - (unsigned) size, idx);
    }
  return r;
}
static void read_slots (hash_table_t t, int size, int nel)
{
  int s, e;
  for (s = 0; s < size; s++)
    {
      hash_table_entry_t v = t->entries[s];
      slot[s] = -1;
      if (v == deleted_marker ()) slot[s] = -2;
      for (e = 0; e < nel; e++) if (v == (hash_table_entry_t) &els[e]) slot[s] = e;
      if (v != NULL && slot[s] == -1) slot[s] = -3;   /* foreign pointer */
    }
}
static int invariant (int size, int nel)
{
  int s, e, ok = 1;
  for (e = 0; e < nel; e++)
    {
      int cnt = 0, pos = -1;
      for (s = 0; s < size; s++) if (slot[s] == e) { cnt++; pos = s; }
      if (cnt > 1) return 0;
      if (cnt == 1) ok &= reachable (e, pos, size);
    }
  for (s = 0; s < size; s++) if (slot[s] == -3) return 0;
  return ok;
}
static void hash_step (YaepAllocator *al)
{
  int size, nel = (int) sx_param ("elements", 3), hmax = (int) sx_param ("hmax", 63), s, e, i, op, nonempty = 0, ndel = 0, was[NEL], now[NEL], cnt;
  hash_table_t t = create_hash_table (al, (size_t) sx_param ("size", 5), h_fn, eq_fn);
  size = (int) hash_table_size (t);
  sx_assume (size <= ISZ && size >= 3);
  for (i = 0; i < nel; i++) { els[i].key = i; els[i].hash = (unsigned) sx_range ("hash", 0, hmax); }
  /* arbitrary pre-state: every slot empty, deleted or one of the elements */
  for (s = 0; s < size; s++)
    {
      int c = sx_choice ("slot", nel + 2);
      slot[s] = c == 0 ? -1 : c == 1 ? -2 : c - 2;
      t->entries[s] = slot[s] == -1 ? NULL : slot[s] == -2 ? deleted_marker () : (hash_table_entry_t) &els[slot[s]];
      if (slot[s] != -1) nonempty++;
      if (slot[s] == -2) ndel++;
    }
  sx_assume (nonempty < size);                       /* the load rule keeps at least one empty slot */
  t->number_of_elements = (size_t) nonempty; t->number_of_deleted_elements = (size_t) ndel;
  sx_assume (invariant (size, nel));                 /* representation invariant (may be symbolic in the hash values) */
  for (e = 0; e < nel; e++) { was[e] = 0; for (s = 0; s < size; s++) if (slot[s] == e) was[e] = 1; }
  op = sx_param ("op0", -1) >= 0 ? (int) sx_param ("op0", -1) : sx_choice ("op", 3);
  e = sx_param ("el0", -1) >= 0 ? (int) sx_param ("el0", -1) : sx_choice ("el", nel);
  sx_observe ("op", op); sx_observe ("el", e);
  for (i = 0; i < nel; i++) now[i] = was[i];
  if (op == 0)
    {
      hash_table_entry_t *p = find_hash_table_entry (t, &els[e], 1);
      if (was[e]) sx_assert (*p == (hash_table_entry_t) &els[e], "step: reserving find of a present element returns its entry");
      else { sx_assert (*p == NULL, "step: reserving find of an absent element returns an empty entry"); *p = (hash_table_entry_t) &els[e]; now[e] = 1; }
    }
  else if (op == 1)
    {
      hash_table_entry_t *p = find_hash_table_entry (t, &els[e], 0);
      sx_assert ((*p == (hash_table_entry_t) &els[e]) == was[e] && (was[e] || *p == NULL), "step: find reports presence exactly");
    }
  else { sx_assume (was[e]); remove_element_from_hash_table_entry (t, &els[e]); now[e] = 0; }
  /* post-state: invariant and abstract contents */
  size = (int) hash_table_size (t);
  sx_assert (size <= ISZ, "step: table size within the harness bound");
  if (size <= ISZ)
    {
      read_slots (t, size, nel);
      sx_assert (invariant (size, nel), "step: the representation invariant holds after the operation");
      cnt = 0;
      for (i = 0; i < nel; i++) { int here = 0; for (s = 0; s < size; s++) if (slot[s] == i) here = 1; sx_assert (here == now[i], "step: the table holds exactly the elements of the model"); cnt += now[i]; }
      sx_assert (hash_table_elements_number (t) == (size_t) cnt, "step: elements number equals the model's count");
    }
  delete_hash_table (t);
}
#endif

/* ---------------- object stack */
#define MAXFIN 8
static unsigned char model_top[200]; static int model_len;
static struct { void *addr; int len; unsigned char bytes[64]; } fin[MAXFIN]; static int nfin;
static void check_os (OSV *os)
{
  int i, k; unsigned char *b;
  sx_assert ((int) OS_TOP_LENGTH (*os) == model_len, "top object length equals the number of bytes appended");
  b = (unsigned char *) OS_TOP_BEGIN (*os);
  for (k = 0; k < model_len; k++) sx_assert (b[k] == model_top[k], "top object holds exactly the bytes appended so far");
  for (i = 0; i < nfin; i++)
    for (k = 0; k < fin[i].len; k++) sx_assert (((unsigned char *) fin[i].addr)[k] == fin[i].bytes[k], "a finished object is never moved or altered");
}
static int os_len1;
static void os_history (YaepAllocator *al)
{
  int K = (int) sx_param ("steps", 5), s, k; OSV os; static const int inits[3] = { 0, 1, 8 };
  unsigned char src[32];
  OS_CREATE (os, al, (size_t) inits[sx_choice ("init", 3)]);
  model_len = 0; nfin = 0;
  for (s = 0; s < K; s++)
    {
      int op, n;
      if (sx_param ("opset", 0) == 1)
        { /* longer histories over the operations that change segments: append 1, 15 or 24 bytes, finish, empty */
          static const int ops1[5] = { 1, 1, 1, 5, 7 }; int c = pick_op (s, "op", 5);
          op = ops1[c]; os_len1 = c == 0 ? 1 : c == 1 ? 15 : 24;
        }
      else { op = pick_op (s, "op", 8); os_len1 = -1; }
      sx_observe ("op", op);
      switch (op)
        {
        case 0: { int b = sx_range ("byte", 0, 255); OS_TOP_ADD_BYTE (os, b); model_top[model_len++] = (unsigned char) b; break; }
        case 1: n = os_len1 >= 0 ? os_len1 : szs[sx_choice ("len", 6)]; for (k = 0; k < n; k++) src[k] = (unsigned char) (17 * s + k + 1); OS_TOP_ADD_MEMORY (os, src, (size_t) n); for (k = 0; k < n; k++) model_top[model_len++] = src[k]; break;
        case 2: n = sx_choice ("len", 12); for (k = 0; k < n; k++) src[k] = (unsigned char) ('a' + k); src[n] = 0;
                OS_TOP_ADD_STRING (os, (const char *) src);
                if (model_len > 0) model_len--;                 /* documented: the previous terminating byte is replaced */
                for (k = 0; k <= n; k++) model_top[model_len++] = src[k];
                break;
        case 3: n = szs[sx_choice ("len", 6)]; OS_TOP_EXPAND (os, (size_t) n); { unsigned char *b = (unsigned char *) OS_TOP_BEGIN (os); for (k = 0; k < n; k++) { b[model_len] = (unsigned char) (200 + k); model_top[model_len++] = (unsigned char) (200 + k); } } break;
        case 4: n = szs[sx_choice ("len", 6)]; OS_TOP_SHORTEN (os, (size_t) n); model_len = n >= model_len ? 0 : model_len - n; break;
        case 5: sx_assume (nfin < MAXFIN && model_len <= 64); fin[nfin].addr = OS_TOP_BEGIN (os); fin[nfin].len = model_len; memcpy (fin[nfin].bytes, model_top, (size_t) model_len); nfin++; OS_TOP_FINISH (os); model_len = 0; break;
        case 6: OS_TOP_NULLIFY (os); model_len = 0; break;
        default: OS_EMPTY (os); model_len = 0; nfin = 0; break;     /* all finished objects are released, the stack is usable again */
        }
      sx_assume (model_len < 150);
      check_os (&os);
    }
  OS_DELETE (os);
}

/* ---------------- variable length object */
static void check_vlo (VLV *v)
{
  int k; unsigned char *b;
  sx_assert ((int) VLO_LENGTH (*v) == model_len, "VLO length equals bytes appended minus bytes shortened");
  b = (unsigned char *) VLO_BEGIN (*v);
  for (k = 0; k < model_len; k++) sx_assert (b[k] == model_top[k], "VLO holds exactly the bytes appended minus those shortened, wherever it is reallocated");
}
static void vlo_history (YaepAllocator *al)
{
  int K = (int) sx_param ("steps", 5), s, k; VLV v; static const int inits[3] = { 0, 1, 8 }; unsigned char src[32];
  VLO_CREATE (v, al, (size_t) inits[sx_choice ("init", 3)]);
  model_len = 0;
  for (s = 0; s < K; s++)
    {
      int op = pick_op (s, "op", 7), n;
      sx_observe ("op", op);
      switch (op)
        {
        case 0: { int b = sx_range ("byte", 0, 255); VLO_ADD_BYTE (v, b); model_top[model_len++] = (unsigned char) b; break; }
        case 1: n = szs[sx_choice ("len", 6)]; for (k = 0; k < n; k++) src[k] = (unsigned char) (17 * s + k + 1); VLO_ADD_MEMORY (v, src, (size_t) n); for (k = 0; k < n; k++) model_top[model_len++] = src[k]; break;
        case 2: n = sx_choice ("len", 12); for (k = 0; k < n; k++) src[k] = (unsigned char) ('a' + k); src[n] = 0;
                VLO_ADD_STRING (v, (const char *) src);
                if (model_len > 0) model_len--;
                for (k = 0; k <= n; k++) model_top[model_len++] = src[k];
                break;
        case 3: n = szs[sx_choice ("len", 6)]; VLO_EXPAND (v, (size_t) n); { unsigned char *b = (unsigned char *) VLO_BEGIN (v); for (k = 0; k < n; k++) { b[model_len] = (unsigned char) (200 + k); model_top[model_len++] = (unsigned char) (200 + k); } } break;
        case 4: n = szs[sx_choice ("len", 6)]; VLO_SHORTEN (v, (size_t) n); model_len = n >= model_len ? 0 : model_len - n; break;
        case 5: VLO_TAILOR (v); break;
        default: VLO_NULLIFY (v); model_len = 0; break;
        }
      sx_assume (model_len < 150);
      check_vlo (&v);
    }
  VLO_DELETE (v);
}

void harness (void)
{
  int mode = (int) sx_param ("mode", 0); long base = sx_live_heap_blocks ();
  YaepAllocator *al = yaep_alloc_new (NULL, NULL, NULL, NULL);
  sx_assume (al != NULL);
  if (mode == 0) hash_history (al); else if (mode == 1) os_history (al); else if (mode == 2) vlo_history (al);
#ifndef __cplusplus
  else hash_step (al);
#endif
  yaep_alloc_del (al);
  sx_assert (sx_live_heap_blocks () == base, "deleting the container releases all its memory");
  if (sx_param ("witness", 0)) sx_assert (0, "witness");
}
