/* C01: recognition is exact.  One path = one token sequence x one configuration. */
#include "ph.h"

static char descr[2048];
void harness (void)
{
  int strict = (int) sx_param ("strict", 1), via_text = (int) sx_param ("via_text", 0);
  int ok, conf; struct pconf c; struct pres r;
  p_setup ();
  ok = o_sentence ();
  conf = sx_choice ("conf", 24);
  c.la = conf % 3; c.one = (conf / 3) % 2; c.cost = (conf / 6) % 2; c.rec = (conf / 12) % 2; c.match = 0; c.use_free = 0;
  if (via_text)
    {
      int drc;
      p_g = yaep_create_grammar (); sx_assume (p_g != NULL);
      g_describe (descr);
      drc = yaep_parse_grammar (p_g, strict, descr);
      sx_assert (drc == 0, "catalogue grammar accepted as description");
      yaep_set_lookahead_level (p_g, c.la); yaep_set_one_parse_flag (p_g, c.one); yaep_set_cost_flag (p_g, c.cost); yaep_set_error_recovery_flag (p_g, c.rec);
      p_rd = 0; p_nerr = 0; r.root = NULL; r.amb = 0;
      r.rc = yaep_parse (p_g, p_read_token, p_syntax_error, p_alloc, NULL, &r.root, &r.amb);
    }
  else p_run (&c, strict, &r);
  sx_observe ("sentence", ok); sx_observe ("rc", r.rc); sx_observe ("root", r.root != NULL); sx_observe ("nerr", p_nerr);
  sx_assert (r.rc == 0, "parse returns 0");
  if (!c.rec)
    {
      sx_assert ((r.root != NULL) == ok, "recovery off: root non-NULL iff sentence");
      sx_assert (p_nerr == (ok ? 0 : 1), "recovery off: exactly one syntax_error call iff non-sentence");
    }
  else
    {
      sx_assert (r.root != NULL, "recovery on: root non-NULL");
      sx_assert ((p_nerr == 0) == ok, "recovery on: syntax_error called iff non-sentence");
    }
  p_done (&r, &c);
  if (sx_param ("witness", 0)) sx_assert (0, "witness");
}
