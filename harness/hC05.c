/* C05: the ambiguity flag is sound and reports every translation-visible ambiguity */
#include "ph.h"
void harness (void)
{
  struct pconf c; struct pres r; int nd, nt, conf;
  p_setup ();
  o_translations (); nt = o_nres;
  sx_assume (nt > 0);
  nd = o_derivations ();
  conf = sx_choice ("conf", 12);
  c.la = conf % 3; c.one = (conf / 3) % 2; c.cost = (conf / 6) % 2; c.rec = (int) sx_param ("rec", 0); c.match = 0; c.use_free = 0;
  p_run (&c, 1, &r);
  sx_observe ("rc", r.rc); sx_observe ("amb", r.amb != 0); sx_observe ("nd", nd); sx_observe ("nt", nt);
  sx_assert (r.rc == 0 && r.root != NULL, "sentence parses");
  sx_assert (!(r.amb != 0) || nd >= 2, "ambiguity flag set only if there are two derivations");
  sx_assert (!(nt >= 2) || r.amb != 0, "ambiguity flag set when two derivations translate differently");
  p_done (&r, &c);
  p_witness ();
}
