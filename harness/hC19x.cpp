/* C19, C++ implementations: hashtab.cpp, objstack.cpp, vlobject.cpp and the inline members in the headers */
#include "hC19.c"
