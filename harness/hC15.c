/* C15: error state, token validation and setters follow the documented API contract */
#include <stdlib.h>
#include <string.h>
#include <limits.h>
#include "sx.h"
#include "yaep.h"

static int ncodes, codes[6];
static const char *const tnames[6] = { "t0", "t1", "t2", "t3", "t4", "t5" };
static int ti, ri;
static const char *rd_term (int *code) { if (ti >= ncodes) return NULL; *code = codes[ti]; return tnames[ti++]; }
/* S : S t_i | t_i | <empty>  for every terminal: every sequence of declared codes is a sentence or a prefix problem only */
static const char *rhsbuf[3];
static const char *rd_rule (const char ***rhs, const char **anode, int *cost, int **transl)
{
  static int tr[2] = { 0, -1 };
  int k = ri++;
  if (k > 2 * ncodes) return NULL;
  if (k == 2 * ncodes) { rhsbuf[0] = NULL; *rhs = rhsbuf; *anode = NULL; *cost = 0; *transl = NULL; return "S"; }
  if (k % 2 == 0) { rhsbuf[0] = "S"; rhsbuf[1] = tnames[k / 2]; rhsbuf[2] = NULL; }
  else { rhsbuf[0] = tnames[k / 2]; rhsbuf[1] = NULL; }
  *rhs = rhsbuf; *anode = NULL; *cost = 0; *transl = tr;
  return "S";
}
static int ntok, tokc[6], rd;
static int read_tok (void **attr) { *attr = NULL; if (rd < ntok) return tokc[rd++]; return -1; }
static int nerr;
static void on_err (int a, void *b, int c, void *d, int e, void *f) { nerr++; (void) a; (void) b; (void) c; (void) d; (void) e; (void) f; }
static void *al (int n) { return malloc ((size_t) n); }
static void fr (void *p) { free (p); }
/* tree memory that is not subject to the injected allocation failures (they model internal requests of the library) */
static char arena[1 << 15]; static unsigned long arena_top;
static void *arena_al (int n) { void *p = arena + arena_top; arena_top += ((unsigned long) n + 15) & ~15UL; if (arena_top > sizeof arena) return NULL; return p; }
static int clamp_la (int v) { return v < 0 ? 0 : v > 2 ? 2 : v; }
static int declared (int c) { int i, r = 0; for (i = 0; i < ncodes; i++) r |= (codes[i] == c); return r; }

void harness (void)
{
  int mode = (int) sx_param ("mode", 0), rc, amb; struct grammar *g; struct yaep_tree_node *root;
  g = yaep_create_grammar (); sx_assume (g != NULL);
  if (mode == 0)
    { /* defaults and setters, arguments symbolic over all int */
      int v1 = sx_int ("v1"), v2 = sx_int ("v2"), which = sx_choice ("setter", 6), d = 0, r1 = 0, r2 = 0, r3 = 0;
      sx_assert (yaep_error_code (g) == 0, "error code is 0 on a new object");
      switch (which)
        {
        case 0: d = 1; r1 = yaep_set_lookahead_level (g, v1); r2 = yaep_set_lookahead_level (g, v2); r3 = yaep_set_lookahead_level (g, 1);
          sx_assert (r2 == clamp_la (v1), "lookahead level is clamped to 0..2 and returned as previous value");
          sx_assert (r3 == clamp_la (v2), "lookahead level is clamped to 0..2 (second value)");
          break;
        case 1: d = 0; r1 = yaep_set_debug_level (g, v1); r2 = yaep_set_debug_level (g, v2); sx_assert (r2 == v1, "debug level setter returns the previous value"); break;
        case 2: d = 1; r1 = yaep_set_one_parse_flag (g, v1); r2 = yaep_set_one_parse_flag (g, v2); sx_assert (r2 == v1, "one-parse setter returns the previous value"); break;
        case 3: d = 0; r1 = yaep_set_cost_flag (g, v1); r2 = yaep_set_cost_flag (g, v2); sx_assert (r2 == v1, "cost setter returns the previous value"); break;
        case 4: d = 1; r1 = yaep_set_error_recovery_flag (g, v1); r2 = yaep_set_error_recovery_flag (g, v2); sx_assert (r2 == v1, "recovery flag setter returns the previous value"); break;
        default: d = 3; r1 = yaep_set_recovery_match (g, v1); r2 = yaep_set_recovery_match (g, v2); sx_assert (r2 == v1, "recovery match setter returns the previous value"); break;
        }
      sx_observe ("first", r1);
      sx_assert (r1 == d, "documented default (lookahead 1, one parse 1, cost 0, recovery 1, match 3, debug 0)");
      sx_assert (yaep_error_code (g) == 0, "setters do not raise errors");
    }
  else if (mode == 1)
    { /* token validation: one token code symbolic over all int at a symbolic position */
      int set = (int) sx_param ("codeset", 0), pos, i, c, bad;
      static const int sets[5][6] = { { 10, 11, 13, 20, 0, 0 }, { 5, 50000, 70001, 0, 0, 0 }, { 7, 0, 0, 0, 0, 0 }, { 0, 3, 300, 0, 0, 0 }, { 1, 2, 3, 4, 5, 6 } };
      static const int setn[5] = { 4, 3, 1, 3, 6 };
      ncodes = setn[set]; for (i = 0; i < ncodes; i++) codes[i] = sets[set][i];
      ti = ri = 0; rc = yaep_read_grammar (g, 1, rd_term, rd_rule);
      sx_assert (rc == 0, "grammar accepted");
      yaep_set_lookahead_level (g, sx_choice ("la", 3)); yaep_set_error_recovery_flag (g, sx_choice ("rec", 2));
      ntok = (int) sx_param ("ntok", 3); pos = sx_choice ("pos", ntok);
      for (i = 0; i < ntok; i++) tokc[i] = codes[i % ncodes];
      if (set == 1)
        { /* sparse codes are looked up in a hash table: the solver cannot decide `code % prime' over all int in reasonable time,
             so the symbolic code ranges over a window and a list of boundary values */
          static const int pts[10] = { INT_MIN, -70001, 49999, 50000, 50001, 70000, 70001, 70002, INT_MAX - 1, INT_MAX };
          int pick = sx_choice ("pick", 11);
          c = pick < 10 ? pts[pick] : sx_range ("code", -3, (int) sx_param ("window", 64));
        }
      else c = sx_int ("code");
      tokc[pos] = c;
      rd = 0; nerr = 0;
      rc = yaep_parse (g, read_tok, on_err, al, NULL, &root, &amb);
      bad = (c >= 0) & !declared (c);
      sx_observe ("rc", rc);
      sx_assert ((rc == YAEP_INVALID_TOKEN_CODE) == bad, "YAEP_INVALID_TOKEN_CODE iff a non-negative undeclared code is delivered");
      sx_assert (rc == 0 || rc == YAEP_INVALID_TOKEN_CODE, "a parse fails only for an invalid token code");
      if (rc != 0) { sx_assert (yaep_error_code (g) == rc, "error code equals the code returned by the failing parse"); sx_assert (yaep_error_message (g)[0] != 0, "error message non-empty"); }
      else sx_assert (nerr == 0 && root != NULL, "declared codes (or a negative code ending the input) parse without error");
    }
  else if (mode == 2)
    { /* undefined grammar, allocator contract, error state sequence */
      int step = sx_choice ("scenario", 8), rc2;
      ntok = 0; rd = 0;
      if (step >= 6)
        { /* settings survive a parse: every setter still returns the value set before the parse - also when the parse
             runs out of memory at an arbitrary internal allocation (step 7) */
          int v1 = sx_int ("one"), v2 = sx_int ("cost"), v3 = sx_int ("rec"), v4 = sx_int ("match"), v5 = sx_int ("la"), r; long A = 0;
          ncodes = 1; codes[0] = 7; ti = ri = 0; rc = yaep_read_grammar (g, 1, rd_term, rd_rule); sx_assert (rc == 0, "grammar accepted");
          yaep_set_one_parse_flag (g, v1); yaep_set_cost_flag (g, v2); yaep_set_error_recovery_flag (g, v3); yaep_set_recovery_match (g, v4); yaep_set_lookahead_level (g, v5);
          ntok = 3; tokc[0] = tokc[1] = tokc[2] = 7;
          if (step == 7)
            { /* dry run on a twin to count the allocations */
              struct grammar *h = yaep_create_grammar (); sx_assume (h != NULL);
              ti = ri = 0; sx_assume (yaep_read_grammar (h, 1, rd_term, rd_rule) == 0);
              yaep_set_one_parse_flag (h, v1); yaep_set_cost_flag (h, v2); yaep_set_error_recovery_flag (h, v3); yaep_set_recovery_match (h, v4); yaep_set_lookahead_level (h, v5);
              rd = 0; sx_fail_alloc_at (-1); rc2 = yaep_parse (h, read_tok, on_err, arena_al, NULL, &root, &amb); A = sx_alloc_count (); yaep_free_grammar (h);
              sx_assume (rc2 == 0 && A > 0);
              sx_fail_alloc_at (sx_range ("fail_at", 0, (int) A - 1));
            }
          rd = 0; nerr = 0; arena_top = 0;
          rc = yaep_parse (g, read_tok, on_err, arena_al, NULL, &root, &amb);
          sx_fail_alloc_at (-1);
          sx_observe ("rc", rc);
          sx_assert (rc == (step == 7 ? YAEP_NO_MEMORY : 0), "parse outcome as expected");
          r = yaep_set_one_parse_flag (g, 1); sx_assert (r == v1, "after a parse the one-parse setter returns the value set before it");
          r = yaep_set_cost_flag (g, 0); sx_assert (r == v2, "after a parse the cost setter returns the value set before it");
          r = yaep_set_error_recovery_flag (g, 1); sx_assert (r == v3, "after a parse the recovery setter returns the value set before it");
          r = yaep_set_recovery_match (g, 3); sx_assert (r == v4, "after a parse the recovery-match setter returns the value set before it");
          r = yaep_set_lookahead_level (g, 1); sx_assert (r == clamp_la (v5), "after a parse the lookahead setter returns the (clamped) value set before it");
        }
      else if (step == 0)
        {
          rc = yaep_parse (g, read_tok, on_err, al, NULL, &root, &amb);
          sx_assert (rc == YAEP_UNDEFINED_OR_BAD_GRAMMAR, "parse on an undefined grammar returns YAEP_UNDEFINED_OR_BAD_GRAMMAR");
          sx_assert (yaep_error_code (g) == rc && yaep_error_message (g)[0] != 0, "error state set by the failing parse");
        }
      else if (step == 1)
        {
          ncodes = 1; codes[0] = 7; ti = ri = 0; rc = yaep_read_grammar (g, 1, rd_term, rd_rule); sx_assert (rc == 0, "grammar accepted");
          rc = yaep_parse (g, read_tok, on_err, NULL, fr, &root, &amb);
          sx_assert (rc == YAEP_NO_MEMORY, "NULL allocator with non-NULL free returns YAEP_NO_MEMORY");
          sx_assert (yaep_error_code (g) == rc, "error code equals the code returned by the most recent failing call");
          sx_assert (yaep_error_message (g)[0] != 0, "error message non-empty");
        }
      else if (step == 2)
        { /* a failing definition, then a successful one: success returns 0, the state keeps the last failure */
          ncodes = 2; codes[0] = 7; codes[1] = 7; ti = ri = 0; rc = yaep_read_grammar (g, 1, rd_term, rd_rule);
          sx_assert (rc == YAEP_REPEATED_TERM_CODE && yaep_error_code (g) == rc, "failing definition returns and records its code");
          rc2 = yaep_parse (g, read_tok, on_err, al, NULL, &root, &amb);
          sx_assert (rc2 == YAEP_UNDEFINED_OR_BAD_GRAMMAR && yaep_error_code (g) == rc2, "parse after failed definition fails and records its own code");
          codes[1] = 8; ti = ri = 0; rc = yaep_read_grammar (g, 1, rd_term, rd_rule);
          sx_assert (rc == 0, "a successful call returns 0");
          sx_assert (yaep_error_code (g) == rc2, "error code still names the most recent failing call");
        }
      else if (step >= 4)
        { /* two objects: the failing call is made on the object that was NOT used last */
          struct grammar *h = yaep_create_grammar (); int hc;
          sx_assume (h != NULL);
          ncodes = 1; codes[0] = 7; ti = ri = 0; rc2 = yaep_read_grammar (h, 1, rd_term, rd_rule); sx_assert (rc2 == 0, "grammar accepted");
          yaep_set_lookahead_level (h, 2);                       /* h is the object used last */
          hc = yaep_error_code (h);
          if (step == 4) rc = yaep_parse_grammar (g, 1, "S : 'a' # 0 ; ; |");
          else { ncodes = 2; codes[0] = 7; codes[1] = 7; ti = ri = 0; rc = yaep_read_grammar (g, 1, rd_term, rd_rule); }
          sx_assert (rc != 0, "defective definition fails");
          sx_assert (yaep_error_code (g) == rc && yaep_error_message (g)[0] != 0, "the failure is recorded in the object of the failing call");
          sx_assert (yaep_error_code (h) == hc, "another object's error state is untouched");
          yaep_free_grammar (h);
        }
      else
        { /* invalid token, then a good parse */
          ncodes = 2; codes[0] = 7; codes[1] = 9; ti = ri = 0; rc = yaep_read_grammar (g, 1, rd_term, rd_rule); sx_assert (rc == 0, "grammar accepted");
          ntok = 2; tokc[0] = 7; tokc[1] = 8; rd = 0;
          rc = yaep_parse (g, read_tok, on_err, al, NULL, &root, &amb);
          sx_assert (rc == YAEP_INVALID_TOKEN_CODE && yaep_error_code (g) == rc, "unused code between declared codes is invalid");
          tokc[1] = 9; rd = 0; nerr = 0;
          rc2 = yaep_parse (g, read_tok, on_err, al, NULL, &root, &amb);
          sx_assert (rc2 == 0 && nerr == 0 && root != NULL, "the object parses normally after an invalid-token failure");
        }
    }
  yaep_free_grammar (g);
  if (sx_param ("witness", 0)) sx_assert (0, "witness");
}
