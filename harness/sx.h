/* Harness vocabulary.  Implemented twice: by the VM (symbolic) and by sx_native.c (replay). */
#ifndef SX_H
#define SX_H
#ifdef __cplusplus
extern "C" {
#endif
int sx_int (const char *name);                       /* fresh symbolic 32-bit value */
long sx_long (const char *name);                     /* fresh symbolic 64-bit value */
int sx_range (const char *name, int lo, int hi);     /* fresh symbolic value in [lo, hi] */
void sx_bytes (void *buf, unsigned long n, const char *name);   /* n fresh symbolic bytes */
int sx_concretize (int v);                           /* fork once per feasible value */
long sx_concretize_long (long v);
void sx_assume (int c);
void sx_assert (int c, const char *label);
void sx_reach (const char *label);
void sx_observe (const char *tag, long value);       /* part of the path's observable trace */
void sx_observe_str (const char *tag, const char *s);
long sx_param (const char *name, long dflt);         /* concrete job parameter */
long sx_ite (long c, long a, long b);                /* branch-free choice */
void sx_fail_alloc_at (int k);                       /* k-th libc allocation from now returns NULL; k < 0 disarms */
long sx_alloc_count (void);
long sx_live_heap_blocks (void);
int sx_mem_valid (const void *p, unsigned long n);   /* [p, p+n) lies inside one live object */
void sx_garbage (void *buf, unsigned long n);        /* overwrite with unconstrained symbolic bytes */
void sx_end_path (void);
int sx_is_vm (void);
void sx_note (const char *s);
#ifdef __cplusplus
}
#endif
#define sx_choice(name, n) sx_concretize (sx_range ((name), 0, (n) - 1))
#endif
