/* C16: class yaep (libyaep++) behaves like the C functions (libyaep): same return codes, error
   messages, syntax_error callbacks, ambiguity flags, trees, and the same release of trees.
   Both libraries are linked into one module; the C++ side is reached through shim16.cpp. */
#include "ph.h"
extern void *xx_create (void); extern void xx_delete (void *);
extern int xx_error_code (void *); extern const char *xx_error_message (void *);
extern int xx_read_grammar (void *, int, const char *(*) (int *), const char *(*) (const char ***, const char **, int *, int **));
extern int xx_parse_grammar (void *, int, const char *);
extern int xx_set_lookahead_level (void *, int), xx_set_debug_level (void *, int), xx_set_one_parse_flag (void *, int), xx_set_cost_flag (void *, int), xx_set_error_recovery_flag (void *, int), xx_set_recovery_match (void *, int);
extern int xx_parse (void *, int (*) (void **), void (*) (int, void *, int, void *, int, void *), void *(*) (int), void (*) (void *), struct yaep_tree_node **, int *);
extern void xx_free_tree (struct yaep_tree_node *, void (*) (void *), void (*) (struct yaep_term *));

static char descr[2048];
struct out { int rc, amb, nerr, err[P_MAXERR], ign[P_MAXERR], rec[P_MAXERR]; long ea[P_MAXERR], ia[P_MAXERR], ra[P_MAXERR]; struct yaep_tree_node *root; };
static void grab (struct out *o) { int i; o->nerr = p_nerr; for (i = 0; i < P_MAXERR; i++) { int u = i < p_nerr; o->err[i] = u ? p_err[i] : 0; o->ign[i] = u ? p_ign[i] : 0; o->rec[i] = u ? p_rec[i] : 0; o->ea[i] = u ? p_err_attr[i] : 0; o->ia[i] = u ? p_ign_attr[i] : 0; o->ra[i] = u ? p_rec_attr[i] : 0; } }
static int teq (struct yaep_tree_node *x, struct yaep_tree_node *y, int depth)
{
  int k, r;
  if (depth > 40) return 1;
  if ((x == NULL) != (y == NULL)) return 0;
  if (x == NULL) return 1;
  if (x->type != y->type) return 0;
  switch ((int) x->type)
    {
    case YAEP_TERM: return (x->val.term.code == y->val.term.code) & (x->val.term.attr == y->val.term.attr);
    case YAEP_ANODE:
      if (strcmp (x->val.anode.name, y->val.anode.name) != 0) return 0;
      r = (x->val.anode.cost == y->val.anode.cost);
      for (k = 0; x->val.anode.children[k] && y->val.anode.children[k]; k++) r &= teq (x->val.anode.children[k], y->val.anode.children[k], depth + 1);
      if (x->val.anode.children[k] || y->val.anode.children[k]) return 0;
      return r;
    case YAEP_ALT: return teq (x->val.alt.node, y->val.alt.node, depth + 1) & teq (x->val.alt.next, y->val.alt.next, depth + 1);
    default: return 1;
    }
}
/* a grammar with one very long rule (grows the rule storage beyond the first object-stack segment) */
static int lr_t, lr_r, lr_len; static const char *lr_rhs[130];
static const char *lr_term (int *code) { if (lr_t) return NULL; lr_t = 1; *code = 'a'; return "a"; }
static const char *lr_rule (const char ***rhs, const char **an, int *cost, int **tr) { int i; if (lr_r) return NULL; lr_r = 1; for (i = 0; i < lr_len; i++) lr_rhs[i] = "a"; lr_rhs[lr_len] = NULL; *rhs = lr_rhs; *an = NULL; *cost = 0; *tr = NULL; return "S"; }
static int tcb; static void termcb (struct yaep_term *t) { (void) t; tcb++; }

void harness (void)
{
  int how = (int) sx_param ("how", 0), conf, i, drc, xrc, m; struct out A, B; struct grammar *g; void *y;
  struct pconf c; int use_default_alloc = (int) sx_param ("default_alloc", 0);   /* 0 caller's allocator, 1 default allocator, 2 NULL parse_alloc with non-NULL parse_free (must be refused) */
  p_setup ();
  conf = sx_choice ("conf", 24);
  c.la = conf % 3; c.one = (conf / 3) % 2; c.cost = (conf / 6) % 2; c.rec = (conf / 12) % 2;
  m = c.rec ? 1 + sx_choice ("match", 3) : 3;
  g = yaep_create_grammar (); y = xx_create (); sx_assume (g != NULL && y != NULL);
  sx_assert (yaep_error_code (g) == xx_error_code (y), "same initial error code");
  if (sx_param ("long_first", 0))
    { /* an earlier definition with a very long rule, then the object is redefined */
      int r1, r2; lr_len = (int) sx_param ("long_first", 0);
      lr_t = lr_r = 0; r1 = yaep_read_grammar (g, 1, lr_term, lr_rule); lr_t = lr_r = 0; r2 = xx_read_grammar (y, 1, lr_term, lr_rule);
      sx_assert (r1 == r2, "first definition returns the same code through both interfaces");
    }
  /* definition: 0 callbacks, 1 description, 2 defective (repeated code), 3 description with syntax error */
  if (how == 2) G.sym[1].code = G.sym[0].code;
  if (how == 0 || how == 2) { drc = g_define (g, 1); g_rewind (); xrc = xx_read_grammar (y, 1, g_read_terminal, g_read_rule); }
  else { if (how == 1) g_describe (descr); else strcpy (descr, "S : 'a' # 0 ; ; |"); drc = yaep_parse_grammar (g, 1, descr); xrc = xx_parse_grammar (y, 1, descr); }
  sx_observe ("drc", drc); sx_observe ("xrc", xrc);
  sx_assert (drc == xrc, "definition returns the same code through both interfaces");
  sx_assert (yaep_error_code (g) == xx_error_code (y), "same error code after the definition");
  sx_assert (strcmp (yaep_error_message (g), xx_error_message (y)) == 0, "same error message after the definition");
  sx_assert (yaep_set_lookahead_level (g, c.la) == xx_set_lookahead_level (y, c.la), "setter returns agree (lookahead)");
  sx_assert (yaep_set_one_parse_flag (g, c.one) == xx_set_one_parse_flag (y, c.one), "setter returns agree (one parse)");
  sx_assert (yaep_set_cost_flag (g, c.cost) == xx_set_cost_flag (y, c.cost), "setter returns agree (cost)");
  sx_assert (yaep_set_error_recovery_flag (g, c.rec) == xx_set_error_recovery_flag (y, c.rec), "setter returns agree (recovery)");
  sx_assert (yaep_set_recovery_match (g, m) == xx_set_recovery_match (y, m), "setter returns agree (recovery match)");
  sx_assert (yaep_set_debug_level (g, 0) == xx_set_debug_level (y, 0), "setter returns agree (debug)");
  p_rd = 0; p_nerr = 0; A.root = NULL; A.amb = 0;
  A.rc = yaep_parse (g, p_read_token, p_syntax_error, use_default_alloc ? NULL : p_alloc, use_default_alloc == 1 ? NULL : p_free, &A.root, &A.amb); grab (&A);
  p_rd = 0; p_nerr = 0; B.root = NULL; B.amb = 0;
  B.rc = xx_parse (y, p_read_token, p_syntax_error, use_default_alloc ? NULL : p_alloc, use_default_alloc == 1 ? NULL : p_free, &B.root, &B.amb); grab (&B);
  sx_observe ("rc", A.rc); sx_observe ("xrc", B.rc); sx_observe ("nerr", A.nerr);
  sx_assert (A.rc == B.rc, "parse returns the same code through both interfaces");
  sx_assert ((A.amb != 0) == (B.amb != 0), "same ambiguity flag");
  sx_assert (A.nerr == B.nerr, "same number of syntax_error calls");
  for (i = 0; i < P_MAXERR; i++)
    sx_assert ((A.err[i] == B.err[i]) & (A.ign[i] == B.ign[i]) & (A.rec[i] == B.rec[i]) & (A.ea[i] == B.ea[i]) & (A.ia[i] == B.ia[i]) & (A.ra[i] == B.ra[i]), "same syntax_error arguments");
  sx_assert (teq (A.root, B.root, 0), "same tree");
  sx_assert (yaep_error_code (g) == xx_error_code (y) && strcmp (yaep_error_message (g), xx_error_message (y)) == 0, "same error state after the parse");
  yaep_free_grammar (g); xx_delete (y);
  sx_assert (teq (A.root, B.root, 0), "trees still equal after both objects are gone");
  {
    int ca, cb; long l0, l1, l2;
    l0 = sx_live_heap_blocks ();
    tcb = 0; yaep_free_tree (A.root, use_default_alloc == 1 ? NULL : p_free, termcb); ca = tcb; l1 = sx_live_heap_blocks ();
    tcb = 0; xx_free_tree (B.root, use_default_alloc == 1 ? NULL : p_free, termcb); cb = tcb; l2 = sx_live_heap_blocks ();
    sx_observe ("released", l0 - l1);
    sx_assert (ca == cb, "free_tree calls the terminal callback equally often");
    sx_assert (l0 - l1 == l1 - l2, "yaep::free_tree releases exactly as many blocks as yaep_free_tree");
  }
  p_witness ();
}
