#!/bin/sh
# run_seeded_wt.sh <seeded-id> <check>...: like run_seeded.sh but on a scratch worktree of /repo HEAD (YAEP_REPO), leaving /repo untouched
id=$1; shift
W=/tmp/mutrepo.$$
L=${SEEDED_LOGDIR:-/tmp}
git -C /repo worktree prune
git -C /repo worktree add --detach $W HEAD >/dev/null 2>&1 || { echo "$id: worktree failed"; exit 2; }
git -C $W apply /verif/seeded/$id/patch.diff || { echo "$id: patch does not apply"; git -C /repo worktree remove --force $W; exit 2; }
cd /verif
for c in "$@"; do
  YAEP_REPO=$W timeout 1500 bin/check $c > $L/seeded_${id}_${c}.log 2>&1; rc=$?
  echo "$id $c exit=$rc $(grep -c '^VIOLATION' $L/seeded_${id}_${c}.log) violation lines; $(grep '^VIOLATION' $L/seeded_${id}_${c}.log | head -2 | cut -c1-220 | tr '\n' '|')"
done
git -C /repo worktree remove --force $W
