#!/usr/bin/env python3
"""Driver library for the sxvm-based checks (DESIGN.md sections 3.7, 3.8, 8).

A check = a list of jobs.  A job = (harness source, parameter dict).  For every check the IR of
/repo's current working tree and the native ASan/UBSan replay binary are rebuilt in a scratch
directory, all jobs are explored by sxvm on all cores, counterexamples are replayed natively,
a sample of explored paths is validated natively, and evidence is written.
"""
import json, os, re, shutil, subprocess, sys, time, tempfile, hashlib, random
from concurrent.futures import ThreadPoolExecutor

VERIF = os.path.dirname(os.path.dirname(os.path.abspath(__file__)))
REPO = os.environ.get("YAEP_REPO", "/repo")
SXVM = os.path.join(VERIF, "vm", "sxvm")
NCPU = int(os.environ.get("VERIF_JOBS", str(os.cpu_count() or 4)))
GUARD = "YAEP_VERIF"

C_LIB = ["yaep.c", "allocate.c", "hashtab.c", "objstack.c", "vlobject.c"]
CXX_LIB = ["yaep.cpp", "hashtab.cpp", "objstack.cpp", "vlobject.cpp"]

IRFLAGS = ["-O0", "-Xclang", "-disable-O0-optnone", "-gline-tables-only", "-emit-llvm", "-c", "-DNDEBUG", "-D" + GUARD, "-w"]
NATFLAGS = ["-O1", "-g", "-fsanitize=address,undefined", "-fno-sanitize-recover=undefined", "-fno-omit-frame-pointer", "-DNDEBUG", "-D" + GUARD, "-w",
]
WRAP = ["-Wl,--wrap=malloc,--wrap=calloc,--wrap=realloc,--wrap=free,--wrap=_Znwm,--wrap=_Znam,--wrap=_ZdlPv,--wrap=_ZdaPv,--wrap=_ZdlPvm"]
MEMFAULTS = {"OUT-OF-BOUNDS", "USE-AFTER-FREE", "DOUBLE-FREE", "BAD-FREE", "NULLDEREF", "WILD-POINTER", "ALLOC-DEALLOC-MISMATCH", "WRITE-TO-CONST", "STACK-OVERFLOW", "BAD-LONGJMP"}
UBFAULTS = {"SIGNED-OVERFLOW", "DIV-BY-ZERO", "SHIFT-TOO-WIDE"}
EXITFAULTS = {"ABORT", "EXIT", "ASSERT-FAIL", "UNREACHABLE"}


def run(cmd, **kw):
    return subprocess.run(cmd, stdout=subprocess.PIPE, stderr=subprocess.PIPE, text=True, **kw)


def must(cmd, **kw):
    r = run(cmd, **kw)
    if r.returncode != 0:
        sys.stderr.write("BUILD-FAILED: %s\n%s\n%s\n" % (" ".join(cmd), r.stdout[-3000:], r.stderr[-3000:]))
        raise SystemExit(2)
    return r


class Workdir:
    def __init__(self):
        base = "/dev/shm" if os.path.isdir("/dev/shm") and os.access("/dev/shm", os.W_OK) else os.environ.get("TMPDIR", "/var/tmp")
        self.path = tempfile.mkdtemp(prefix="sxw.", dir=base)

    def cleanup(self):
        shutil.rmtree(self.path, ignore_errors=True)


class Builder:
    """Builds library IR / native objects once per check, harness IR / native binaries per harness."""

    def __init__(self, W, cxx=False, extra_defs=()):
        self.W = W
        self.cxx = cxx
        self.extra = [d if d.startswith("-") else "-D" + d for d in extra_defs]
        self.inc = ["-I" + os.path.join(REPO, "src"), "-I" + W, "-I" + os.path.join(VERIF, "harness"), "-I" + os.path.join(VERIF, "spec")]
        self.libbc = []
        self.libobj = []
        self.built = {}

    def prepare(self):
        W = self.W
        must(["bison", "-o", os.path.join(W, "sgramm.c"), os.path.join(REPO, "src", "sgramm.y")])
        tasks = []
        for f in C_LIB:
            tasks.append((["clang-14"] + IRFLAGS + self.extra + self.inc + [os.path.join(REPO, "src", f), "-o", os.path.join(W, f + ".bc")], None))
            self.libbc.append(os.path.join(W, f + ".bc"))
            tasks.append((["gcc"] + NATFLAGS + self.extra + self.inc + ["-c", os.path.join(REPO, "src", f), "-o", os.path.join(W, f + ".o")], None))
            self.libobj.append(os.path.join(W, f + ".o"))
        tasks.append((["clang-14"] + IRFLAGS + self.inc + [os.path.join(VERIF, "vm", "models.c"), "-o", os.path.join(W, "models.bc")], None))
        tasks.append((["gcc"] + NATFLAGS + self.inc + ["-c", os.path.join(VERIF, "harness", "sx_native.c"), "-o", os.path.join(W, "sx_native.o")], None))
        if self.cxx:
            self.cxxbc = []
            self.cxxobj = []
            for f in CXX_LIB:
                tasks.append((["clang++-14"] + IRFLAGS + ["-fno-exceptions"] + self.extra + self.inc + [os.path.join(REPO, "src", f), "-o", os.path.join(W, f + ".bc")], None))
                self.cxxbc.append(os.path.join(W, f + ".bc"))
                tasks.append((["g++"] + NATFLAGS + ["-fno-exceptions"] + self.extra + self.inc + ["-c", os.path.join(REPO, "src", f), "-o", os.path.join(W, f + ".o")], None))
                self.cxxobj.append(os.path.join(W, f + ".o"))
        with ThreadPoolExecutor(NCPU) as ex:
            list(ex.map(lambda t: must(t[0]), tasks))

    def harness(self, src, defs=(), lib="c", extra_src=()):
        """returns (ir path, native binary path) for harness source file `src` (relative to harness/)."""
        key = (src, tuple(defs), lib, tuple(extra_src))
        if key in self.built:
            return self.built[key]
        W = self.W
        tag = hashlib.md5(repr(key).encode()).hexdigest()[:8]
        base = os.path.join(W, os.path.basename(src).replace(".", "_") + "_" + tag)
        dl = ["-D" + d for d in defs]
        bcs, objs, tasks, anycxx = [], [], [], False
        for n, sname in enumerate((src,) + tuple(extra_src)):
            path = os.path.join(VERIF, "harness", sname)
            iscxx = sname.endswith(".cpp")
            anycxx |= iscxx
            cc, ncc = ("clang++-14", "g++") if iscxx else ("clang-14", "gcc")
            xf = ["-fno-exceptions"] if iscxx else []
            tasks.append([cc] + IRFLAGS + xf + self.extra + dl + self.inc + [path, "-o", "%s.%d.bc" % (base, n)])
            tasks.append([ncc] + NATFLAGS + xf + self.extra + dl + self.inc + ["-c", path, "-o", "%s.%d.o" % (base, n)])
            bcs.append("%s.%d.bc" % (base, n))
            objs.append("%s.%d.o" % (base, n))
        with ThreadPoolExecutor(4) as ex:
            list(ex.map(must, tasks))
        libbc = {"c": self.libbc, "none": [], "containers": [b for b in self.libbc if "yaep.c" not in b]}.get(lib)
        libobj = {"c": self.libobj, "none": [], "containers": [o for o in self.libobj if "yaep.c" not in o]}.get(lib)
        if lib == "cxx":
            libbc = self.cxxbc + [b for b in self.libbc if "allocate" in b]
            libobj = self.cxxobj + [o for o in self.libobj if "allocate" in o]
        if lib == "cxxcontainers":
            libbc = [b for b in self.cxxbc if "yaep.cpp" not in b] + [b for b in self.libbc if "allocate" in b]
            libobj = [o for o in self.cxxobj if "yaep.cpp" not in o] + [o for o in self.libobj if "allocate" in o]
        if lib == "both":
            # libyaep and libyaep++ in one module: the C++ translation unit of the parser re-defines the unmangled
            # globals of yaep.c (bison tables, counters); they are made local to that unit, class members stay visible
            ybc, yobj = self.both_cxx()
            libbc = self.libbc + [ybc] + [b for b in self.cxxbc if "yaep.cpp" not in b]
            libobj = self.libobj + [yobj] + [o for o in self.cxxobj if "yaep.cpp" not in o]
        must(["llvm-link-14"] + bcs + [os.path.join(W, "models.bc")] + libbc + ["-o", base + ".all.bc"])
        must(["opt-14", "-passes=mem2reg,sroa,early-cse,simplifycfg", base + ".all.bc", "-o", base + ".opt.bc"])
        must([("g++" if (anycxx or lib.startswith("cxx") or lib == "both") else "gcc"), "-fsanitize=address,undefined"] + WRAP + objs + [os.path.join(W, "sx_native.o")] + libobj + ["-o", base + ".native"])
        self.built[key] = (base + ".opt.bc", base + ".native")
        return self.built[key]

    def both_cxx(self):
        if hasattr(self, "_both"):
            return self._both
        W = self.W
        ybc = [b for b in self.cxxbc if "yaep.cpp" in b][0]
        yobj = [o for o in self.cxxobj if "yaep.cpp" in o][0]
        r = must(["llvm-nm-14", "--defined-only", "--extern-only", ybc])
        syms = [l.split()[-1] for l in r.stdout.splitlines() if l.strip()]
        keep = [s for s in syms if s.startswith("_Z")]
        local = [s for s in syms if not s.startswith("_Z")]
        out_bc = os.path.join(W, "yaep_cpp_internal.bc")
        must(["opt-14", "-passes=internalize", "-internalize-public-api-list=" + ",".join(keep), ybc, "-o", out_bc])
        out_o = os.path.join(W, "yaep_cpp_internal.o")
        lf = os.path.join(W, "localize.txt")
        r2 = must(["nm", "--defined-only", "--extern-only", yobj])
        local = [l.split()[-1] for l in r2.stdout.splitlines() if l.strip() and not l.split()[-1].startswith("_Z")]
        open(lf, "w").write("\n".join(local) + "\n")
        must(["objcopy", "--localize-symbols=" + lf, yobj, out_o])
        self._both = (out_bc, out_o)
        return self._both


def params_str(p):
    return ",".join("%s=%d" % (k, v) for k, v in sorted(p.items()))


def run_vm(ir, job, out, tier, seed, dumpdir=None):
    cmd = [SXVM, ir, "--out", out, "--seed", str(seed), "--per-sig", str(job.get("per_sig", 2000)), "--samples", str(job.get("samples", 6))]
    for k, v in sorted(job["params"].items()):
        cmd += ["-P", "%s=%d" % (k, v)]
    cmd += ["--max-time", str(job.get("max_time", 300 if tier == "quick" else 2400))]
    if "max_steps" in job:
        cmd += ["--max-steps", str(job["max_steps"])]
    cmd += job.get("vmopts", [])
    if dumpdir:
        cmd += ["--dump-dir", dumpdir, "--dump-every", "50"]
    t0 = time.time()
    r = run(cmd)
    dt = time.time() - t0
    if r.returncode == 3 or not os.path.exists(out):
        return {"fatal": r.stderr[-2000:], "cmd": cmd, "wall": dt}
    d = json.load(open(out))
    d["wall"] = dt
    d["rc"] = r.returncode
    return d


def native_run(binary, params, inputs, W, timeout=60):
    """runs the native replay binary; returns dict(obs, fails, done, sanitizer, stderr, rc)"""
    fd, rp = tempfile.mkstemp(prefix="replay.", dir=W)
    with os.fdopen(fd, "w") as f:
        for n, v in inputs:
            f.write("%s %d\n" % (n, v))
    env = dict(os.environ, SX_REPLAY=rp, SX_PARAMS=params_str(params),
               ASAN_OPTIONS="detect_leaks=0:allocator_may_return_null=1:abort_on_error=0:detect_stack_use_after_return=0", UBSAN_OPTIONS="print_stacktrace=1")
    try:
        r = run([binary], env=env, timeout=timeout)
        rc, out, err, to = r.returncode, r.stdout, r.stderr, False
    except subprocess.TimeoutExpired as e:
        rc, out, err, to = -1, (e.stdout or b"").decode(errors="replace") if isinstance(e.stdout, bytes) else (e.stdout or ""), "", True
    os.unlink(rp)
    res = {"obs": [], "fails": [], "done": False, "ended": False, "desync": None, "rc": rc, "timeout": to, "stderr": err[-4000:]}
    for line in out.splitlines():
        if line.startswith("OBS "):
            res["obs"].append(line[4:])
        elif line.startswith("ASSERT-FAIL "):
            res["fails"].append(line[12:])
        elif line.startswith("PATH-DONE"):
            res["done"] = True
        elif line.startswith("PATH-ENDED"):
            res["ended"] = True
        elif line.startswith("REPLAY-DESYNC"):
            res["desync"] = line
    san = None
    m = re.search(r"ERROR: AddressSanitizer: ([\w-]+)", err)
    if m:
        san = "asan:" + m.group(1)
    m2 = re.search(r"runtime error: ([^\n]+)", err)
    if m2 and not san:
        san = "ubsan:" + m2.group(1)[:80]
    res["sanitizer"] = san
    fm = re.search(r"#\d+ 0x[0-9a-f]+ in (\w+) (/repo/src/|[^\n]*sgramm)[^\n]*", err)
    res["san_func"] = fm.group(1) if fm else None
    return res


def fault_func(v):
    loc = v.get("loc", "")
    return loc.split("@")[0] if "@" in loc else loc


def confirm(v, nat):
    """does the native run reproduce VM violation v?"""
    k = v["kind"]
    if k == "ASSERT":
        # the recorded inputs end at the violation; running out of inputs afterwards is expected
        return v["label"] in nat["fails"]
    if nat["desync"] and not nat["sanitizer"]:
        return False
    if k in MEMFAULTS or k == "UNINIT-USE":
        # the native run shows a memory fault of some class (ASan or UBSan report, or a crash)
        return bool(nat["sanitizer"]) or nat["rc"] in (-11, 139, -6, 134, -4, 132)
    if k in UBFAULTS:
        return bool(nat["sanitizer"])
    if k in EXITFAULTS:
        return (not nat["done"]) and not nat["ended"]
    if k == "STEP-LIMIT":
        return nat["timeout"]
    return False


def load_known():
    p = os.path.join(VERIF, "known_findings.json")
    if not os.path.exists(p):
        return []
    return json.load(open(p)).get("findings", [])


def inputs_dict(inputs):
    d = {}
    for n, v in inputs:
        d.setdefault(n.split("#")[0], []).append(v)
    return d


def match_known(known, prop, harness, params, v):
    for k in known:
        if k.get("status", "open") != "open" or k["property"] != prop:
            continue
        m = k["match"]
        if m.get("harness") and m["harness"] != harness:
            continue
        if m.get("kind") and m["kind"] != v["kind"]:
            continue
        if m.get("label") and m["label"] != v["label"]:
            continue
        if m.get("func") and m["func"] != fault_func(v):
            continue
        if any(params.get(a) != b for a, b in m.get("params", {}).items()):
            continue
        pred = k.get("pred")
        if pred:
            try:
                if not eval(pred, {"__builtins__": {"len": len, "all": all, "any": any, "min": min, "max": max, "sum": sum, "range": range, "set": set, "sorted": sorted, "abs": abs}}, {"p": params, "i": inputs_dict(v["inputs"]), "obs": v.get("obs", [])}):
                    continue
            except Exception:
                continue
        return k
    return None


class Check:
    def __init__(self, prop, tier, seed, home_faults, label_prefix=None):
        self.label_prefix = label_prefix
        self.prop = prop
        self.tier = tier
        self.seed = seed
        self.home_faults = home_faults      # does this property's statement cover built-in faults?
        self.t0 = time.time()
        self.wd = Workdir()
        self.W = self.wd.path
        self.jobs = []                      # (harness key, job)
        self.assumptions = []
        self.bounds = {}
        self.extra = {}

    def execute(self, builder, jobs, witness_jobs, validate_per_job=1, max_validate=24, crosscheck=False):
        """jobs: list of dict(harness=src, defs=(), lib='c', params={}, ...)."""
        W = self.W
        # build harnesses (sequentially per distinct harness; each build is internally parallel)
        hkeys = sorted(set((j["harness"], tuple(j.get("defs", ())), j.get("lib", "c"), tuple(j.get("extra_src", ()))) for j in jobs + witness_jobs))
        with ThreadPoolExecutor(min(len(hkeys), 8) or 1) as ex:
            built = dict(zip(hkeys, ex.map(lambda k: builder.harness(k[0], k[1], k[2], k[3]), hkeys)))
        dumpdir = None
        if crosscheck:
            dumpdir = os.path.join(W, "q")
            os.makedirs(dumpdir, exist_ok=True)
        alljobs = [(j, False) for j in jobs] + [(j, True) for j in witness_jobs]

        def one(ix):
            j, wit = alljobs[ix]
            ir, nat = built[(j["harness"], tuple(j.get("defs", ())), j.get("lib", "c"), tuple(j.get("extra_src", ())))]
            return run_vm(ir, j, os.path.join(W, "job%d.json" % ix), self.tier, self.seed, dumpdir)
        # longest jobs first when a weight is given
        order = sorted(range(len(alljobs)), key=lambda i: -alljobs[i][0].get("weight", 1))
        with ThreadPoolExecutor(NCPU) as ex:
            results_list = list(ex.map(one, order))
        results = dict(zip(order, results_list))

        known = load_known()
        tot = dict(paths=0, completed=0, forks=0, insts=0, queries=0, solver_s=0.0, asserts_proved=0, asserts_concrete=0, fallbacks=0, symloads=0)
        ends = {}
        labels = {}
        functions = set()
        engine_faults = []
        truncated = 0
        confirmed = []       # (job, v, nat)
        unconfirmed = []
        aborted_by_fault = []
        samples_out = []
        witness_ok = 0
        witness_total = len(witness_jobs)
        to_validate = []
        replay_tasks = []
        for ix, (j, wit) in enumerate(alljobs):
            d = results[ix]
            if "fatal" in d:
                engine_faults.append({"job": j["params"], "harness": j["harness"], "fatal": d["fatal"]})
                continue
            if d["rc"] == 2 or d["stats"]["unknown"]:
                engine_faults.append({"job": j["params"], "harness": j["harness"], "fatal": "solver inconclusive"})
            if wit:
                if any(v["kind"] == "ASSERT" and v["label"] == "witness" for v in d["violations"]):
                    witness_ok += 1
                continue
            s = d["stats"]
            for k in tot:
                tot[k] += s.get(k, 0)
            if s.get("truncated"):
                truncated += 1
            for k, v in d["ends"].items():
                ends[k] = ends.get(k, 0) + v
            for k, v in d["labels"].items():
                a = labels.setdefault(k, [0, 0])
                a[0] += v[0]
                a[1] += v[1]
            functions.update(d["functions"])
            for v in d["violations"]:
                replay_tasks.append((ix, j, v))
            for smp in d["samples"][:validate_per_job]:
                to_validate.append((ix, j, smp))
            for smp in d["samples"][:2]:
                if len(samples_out) < 12:
                    samples_out.append({"harness": j["harness"], "params": j["params"], "inputs": smp["inputs"][:40], "observed": smp["obs"][:40], "end": smp["end"], "instructions": smp["steps"]})
        rnd = random.Random(self.seed)
        rnd.shuffle(to_validate)
        to_validate = to_validate[:max_validate]

        # native replay of counterexamples (dedupe identical signatures per job beyond a few examples)
        seen = {}
        rt = []
        for ix, j, v in replay_tasks:
            sig = (j["harness"], v["kind"], v["label"] if v["kind"] == "ASSERT" else fault_func(v), params_str(j["params"]))
            seen[sig] = seen.get(sig, 0) + 1
            rt.append((ix, j, v, seen[sig]))

        def replay(t):
            ix, j, v, nth = t
            ir, nat = built[(j["harness"], tuple(j.get("defs", ())), j.get("lib", "c"), tuple(j.get("extra_src", ())))]
            return native_run(nat, j["params"], v["inputs"], W)
        with ThreadPoolExecutor(NCPU) as ex:
            nats = list(ex.map(replay, rt))
        violations = []
        known_hits = {}
        for (ix, j, v, nth), nat in zip(rt, nats):
            rec = {"harness": j["harness"], "params": j["params"], "kind": v["kind"], "label": v["label"], "loc": v["loc"], "stack": v.get("stack", ""), "inputs": v["inputs"], "obs": v.get("obs", [])[:60],
                   "native": {"sanitizer": nat["sanitizer"], "fails": nat["fails"][:5], "rc": nat["rc"], "san_func": nat["san_func"]}}
            if v["kind"] == "ASSERT" and self.label_prefix and not v["label"].startswith(self.label_prefix) and v["label"] != "witness":
                continue            # belongs to a sibling property sharing this harness
            if not confirm(v, nat):
                unconfirmed.append(rec)
                continue
            if v["kind"] != "ASSERT" and not self.home_faults:
                aborted_by_fault.append(rec)
                continue
            k = match_known(known, self.prop, j["harness"], j["params"], v)
            if k:
                known_hits.setdefault(k["id"], []).append(rec)
            else:
                violations.append(rec)

        # native validation of explored paths: identical observable traces
        def validate(t):
            ix, j, smp = t
            ir, nat = built[(j["harness"], tuple(j.get("defs", ())), j.get("lib", "c"), tuple(j.get("extra_src", ())))]
            return native_run(nat, j["params"], smp["inputs"], W)
        with ThreadPoolExecutor(NCPU) as ex:
            vres = list(ex.map(validate, to_validate))
        validated = 0
        for (ix, j, smp), nat in zip(to_validate, vres):
            ok = (nat["obs"] == smp["obs"]) and not nat["desync"] and (nat["done"] or nat["ended"]) and not nat["sanitizer"]
            if ok:
                validated += 1
            else:
                diff = next((i for i, (a, b) in enumerate(zip(nat["obs"], smp["obs"])) if a != b), min(len(nat["obs"]), len(smp["obs"])))
                engine_faults.append({"harness": j["harness"], "job": j["params"], "mismatch_at": diff, "vm": smp["obs"][max(0, diff - 2):diff + 3], "native": nat["obs"][max(0, diff - 2):diff + 3], "desync": nat["desync"], "sanitizer": nat["sanitizer"], "inputs": smp["inputs"][:30], "stderr": nat["stderr"][-600:]})

        cvc5 = None
        if crosscheck:
            cvc5 = self.cvc5_crosscheck(dumpdir)
            if cvc5["disagree"]:
                engine_faults.append({"fatal": "cvc5 disagrees with z3 on %d queries" % cvc5["disagree"]})

        slow = sorted(((results[ix].get("wall", 0), alljobs[ix][0]["harness"], alljobs[ix][0]["params"]) for ix in range(len(alljobs))), key=lambda x: -x[0])[:4]
        self.slowest = [{"wall_s": round(w, 1), "harness": h, "params": p} for w, h, p in slow]
        unreached = sorted(l for l, a in labels.items() if a[0] == 0)
        self.result = dict(tot=tot, ends=ends, labels=labels, functions=sorted(functions), engine_faults=engine_faults, truncated=truncated,
                           violations=violations, known_hits=known_hits, unconfirmed=unconfirmed, aborted_by_fault=aborted_by_fault, samples=samples_out,
                           validated=validated, validate_total=len(to_validate), witness_ok=witness_ok, witness_total=witness_total, cvc5=cvc5, njobs=len(jobs), unreached=unreached)
        return self.result

    def cvc5_crosscheck(self, d):
        files = sorted(os.listdir(d))[:400]

        def one(f):
            exp = "unsat" if f.endswith(".unsat.smt2") else "sat"
            try:
                r = run(["cvc5", "--tlimit=20000", os.path.join(d, f)], timeout=40)
                got = r.stdout.strip().splitlines()[0] if r.stdout.strip() else "error"
            except subprocess.TimeoutExpired:
                got = "timeout"
            return exp, got
        with ThreadPoolExecutor(NCPU) as ex:
            res = list(ex.map(one, files))
        return {"queries": len(res), "agree": sum(1 for e, g in res if e == g), "disagree": sum(1 for e, g in res if g in ("sat", "unsat") and e != g), "undecided": sum(1 for e, g in res if g not in ("sat", "unsat"))}

    def finish(self, level_text, rule):
        R = self.result
        os.makedirs(os.path.join(VERIF, "evidence", "replays"), exist_ok=True)
        for f in os.listdir(os.path.join(VERIF, "evidence", "replays")):
            if f.startswith(self.prop + "-"):
                os.unlink(os.path.join(VERIF, "evidence", "replays", f))
        lines = []
        known = {k["id"]: k for k in load_known()}
        for kid, recs in sorted(R["known_hits"].items()):
            lines.append("KNOWN-FINDING: property=%s %s (%d occurrences in this run; %s)" % (self.prop, known[kid]["what"], len(recs), kid))
        vio_paths = []
        sigs = {}
        for rec in R["violations"]:
            sig = (rec["harness"], rec["kind"], rec["label"] if rec["kind"] == "ASSERT" else rec["loc"], rec["params"].get("grammar"))
            sigs.setdefault(sig, []).append(rec)
        for n, (sig, recs) in enumerate(sorted(sigs.items(), key=lambda x: str(x[0]))):
            p = os.path.join(VERIF, "evidence", "replays", "%s-%d.json" % (self.prop, n))
            json.dump({"property": self.prop, "occurrences": len(recs), "first": recs[0], "more": recs[1:4]}, open(p, "w"), indent=1)
            vio_paths.append(p)
            if n < 50:
                lines.append("VIOLATION property=%s replay=%s   # %s %s %s" % (self.prop, p, recs[0]["kind"], recs[0]["label"][:80], recs[0]["loc"]))
        wall = time.time() - self.t0
        cov = {
            "states": max(1, R["tot"]["paths"]), "transitions": max(1, R["tot"]["forks"]),
            "traces_validated_against_impl": R["validated"],
            "samples": R["samples"] or [{"note": "no completed path sampled"}],
            "rule": rule, "exhaustive": R["truncated"] == 0,
            "jobs": R["njobs"], "completed_paths": R["tot"]["completed"], "path_ends": R["ends"],
            "ir_instructions_executed": R["tot"]["insts"], "queries": R["tot"]["queries"], "solver_s": round(R["tot"]["solver_s"], 2),
            "qfbv_fallbacks": R["tot"]["fallbacks"], "assertions_proved_by_solver": R["tot"]["asserts_proved"], "assertions_concrete": R["tot"]["asserts_concrete"],
            "symbolic_address_loads": R["tot"]["symloads"],
            "assert_labels": {k: {"reached": v[0], "held": v[1]} for k, v in sorted(R["labels"].items())},
            "unreached_labels": R["unreached"],
            "functions_encoded": R["functions"], "functions_encoded_count": len(R["functions"]),
            "bounds": self.bounds, "truncated_jobs": R["truncated"],
            "witness_twins_violated": "%d/%d" % (R["witness_ok"], R["witness_total"]),
            "native_validation": "%d/%d explored paths replayed natively with identical observable trace" % (R["validated"], R["validate_total"]),
            "known_findings_matched": {k: len(v) for k, v in R["known_hits"].items()},
            "aborted_by_fault_paths": len(R["aborted_by_fault"]), "aborted_by_fault_examples": R["aborted_by_fault"][:3],
            "unconfirmed_natively": len(R["unconfirmed"]), "unconfirmed_examples": R["unconfirmed"][:3],
            "engine_faults": R["engine_faults"][:5],
            "cvc5_crosscheck": R["cvc5"],
            "slowest_jobs": getattr(self, "slowest", []),
        }
        cov.update(self.extra)
        ev = {"property_id": self.prop, "tier": self.tier, "seed": self.seed, "level": "model_checking", "coverage": cov,
              "assumptions": self.assumptions, "wall_s": round(wall, 1), "violations": len(sigs)}
        json.dump(ev, open(os.path.join(VERIF, "evidence", self.prop + ".json"), "w"), indent=1)
        self.wd.cleanup()
        for l in lines:
            print(l)
        status = 0
        if sigs:
            status = 1
        elif R["engine_faults"] or R["witness_ok"] < R["witness_total"]:
            for e in R["engine_faults"][:5]:
                print("ENGINE-FAULT %s" % json.dumps(e)[:1500])
            if R["witness_ok"] < R["witness_total"]:
                print("ENGINE-FAULT witness twins violated %d/%d (vacuous harness?)" % (R["witness_ok"], R["witness_total"]))
            status = 2
        print("%s %s: jobs=%d paths=%d forks=%d instr=%.1fM queries=%d solver=%.1fs proved=%d validated=%d/%d witness=%d/%d known=%d violations=%d aborted_by_fault=%d unconfirmed=%d truncated=%d wall=%.0fs -> exit %d" % (
            self.prop, self.tier, R["njobs"], R["tot"]["paths"], R["tot"]["forks"], R["tot"]["insts"] / 1e6, R["tot"]["queries"], R["tot"]["solver_s"], R["tot"]["asserts_proved"], R["validated"], R["validate_total"],
            R["witness_ok"], R["witness_total"], sum(len(v) for v in R["known_hits"].values()), len(sigs), len(R["aborted_by_fault"]), len(R["unconfirmed"]), R["truncated"], wall, status))
        return status
