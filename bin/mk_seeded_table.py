"""mk_seeded_table.py <sweep log> <log dir>: renders the table of DESIGN.md 11.5 from the output of bin/sweep_seeded.sh"""
import json,re,os,sys
LOG=sys.argv[1] if len(sys.argv)>1 else '/var/tmp/seeded_sweep/sweep.log'
LD=sys.argv[2] if len(sys.argv)>2 else os.path.dirname(LOG)
rows={}
for l in open(LOG):
    m=re.match(r'(\S+) (C\d+) exit=(\d+) (\d+) violation',l)
    if not m: continue
    mid,chk,rc,nv=m.group(1),m.group(2),int(m.group(3)),int(m.group(4))
    lab=""
    lf=os.path.join(LD,'seeded_%s_%s.log'%(mid,chk))
    if os.path.exists(lf):
        v=[x for x in open(lf) if x.startswith('VIOLATION')]
        if v:
            lab=v[0].split('#',1)[1].strip() if '#' in v[0] else ''
            lab=re.sub(r'@\S*/(src|harness)/','@',lab)[:110]
    rows.setdefault(mid,[]).append((chk,rc,lab))
out=["### 11.5 Seeded changes and which checks catch them\n",
"%d changes to vnmakarov/yaep were written by independent sub-agents that saw only one property's text and a" % len(rows),
"scratch worktree (six rounds; from round 4 on the agents were told that the obvious spots had been tried; exact",
"duplicates of a kept change were dropped, independent re-inventions with their own demonstration were kept).  I",
"confirmed each in a scratch worktree of /repo HEAD: patch applies, the 120-test suite passes with it, the agent's",
"demonstration exits 0 without and non-zero with the patch.  They are kept under seeded/<id>/ (patch.diff, demo.c,",
"meta.json).  `bin/sweep_seeded.sh` runs every change against its home check in a scratch worktree (YAEP_REPO) and,",
"when that exits 0, against the checks named in its meta.json `also_checks`; `bin/mk_seeded_table.py` renders this",
"table from the sweep log.  The table is the quick tier on the final tree.\n",
"| seeded change | breaks | what it is | quick check(s) run -> exit, first reported violation |","|---|---|---|---|"]
for mid in sorted(rows):
    meta=json.load(open('/verif/seeded/%s/meta.json'%mid))
    res="; ".join("%s -> %d%s"%(c,rc,(" ("+lab+")") if lab else "") for c,rc,lab in rows[mid])
    out.append("| %s | %s | %s | %s |"%(mid,meta["breaks_property"],meta["change"][:150].replace("|","/"),res.replace("|","/")))
caught=sum(1 for mid in rows if any(rc==1 for _,rc,_ in rows[mid]))
out.append("\n%d of %d seeded changes are reported by at least one quick check (exit 1 with a natively replayed violation)."%(caught,len(rows)))
out.append('''
History of this table (what the misses taught).  Rounds 1-3 (40 changes): the first sweep with the catalogue G1-G19
caught 11 of 27.  The misses were almost all *coverage of grammar shapes*, not of assertions: the oracles and
assertions were already strong enough, but no catalogue grammar had a unit chain predicted before its second parent,
a nonterminal followed only by a nullable one, a permuted translation whose middle symbol completes from two
origins, an untranslated nonterminal with two origins, an error rule of a non-start nonterminal, three nested error
contexts, or a three-operand rule competing with binary ones.  G20-G34, the symbolic grammar families (SG with and
without `error'), the C10 chain family, the C11 layout variants, pre-created objects and a two-object scenario in
C14/C15, large inputs/grammars in C17, `empty' as an object-stack operation, a long-rule redefinition scenario in
C16 and deeper hash-table histories were added in response.  One miss was a bug of the checks themselves: hC01.c
ignored the NEAR parameters (its NEAR jobs silently ran ALL(2)); found through C01b-1/C01b-2.

Rounds 4-6 (42 changes, agents asked for less obvious spots): 21 were missed by the quick tier as it stood.  This
time the misses were mostly *histories and sizes*: a second parse of the same object (contexts, rule-name copies
and situation tables left over from the first), a definition read after another one had been rejected, settings
changed after the definition, inputs with three repetitions of a phrase (goto cache), more than ten lookahead-2
contexts (and, in round 6, more than twenty), more than eight terminals (round 6: more than 63, i.e. terminal sets of
two machine words), a description without any terminal, newlines between particular tokens of an erroneous
description, a terminal with code 0, object-stack segments that are outgrown at once, a parse that runs out of
memory with the cost flag on, an abstract node without children as the cheapest alternative.  Added in response:
the REP input family, the second-parse mode, padding terminals, G35-G47, C11's layout mode for erroneous texts, C09's level-at-definition variation, C10 family 5, C11's
history mode, C14's predefined histories / other grammar pools / released trees, C15's settings-across-parses
scenarios, C17's big-grammar parse, C19's long object-stack histories, and 64-byte object-stack segments for C07,
C08 and C12.  One weakening of my own was caught by re-running the sweep (C14-2 slipped through after the
lookahead action of hC14 had been reordered).  Memory faults inside the library (C06-2, C06d-2, C07c-2, C15-2) are reported
by C12 and state left behind in a grammar object (C04c-1, C08c-2, C12c-1) by C14 and C02d-1's truncated input first by C15's token-code classes, now also by C02 on G46, following the attribution rule
of 7.20; C03b-1 (a goto-cache change) is reported by C09's self-check of cached sets.  Two defects of the
*unchanged* library surfaced on the way and were repaired (11.4: ec7866f through the thorough tier, ddc47a2 through
the new C15 scenario after a sub-agent had noticed it while reading the source).
''')
open(os.path.join(LD,'table_11_5.md'),'w').write("\n".join(out))
print(caught,len(rows))
