#!/bin/sh
# run_seeded.sh <seeded-id> <check> [<check>...]: applies /verif/seeded/<id>/patch.diff to /repo, runs the checks, reverts.
# Prints one line per check: "<id> <check> exit=<n>".  /repo must be clean.
id=$1; shift
cd /repo || exit 2
if [ -n "$(git status --porcelain --untracked-files=no)" ]; then echo "/repo not clean"; exit 2; fi
git apply /verif/seeded/$id/patch.diff || { echo "$id: patch does not apply"; exit 2; }
cd /verif
for c in "$@"; do
  timeout 1500 bin/check $c > /tmp/seeded_${id}_${c}.log 2>&1; rc=$?
  echo "$id $c exit=$rc $(grep -c '^VIOLATION' /tmp/seeded_${id}_${c}.log) violation lines; $(grep '^VIOLATION' /tmp/seeded_${id}_${c}.log | head -2 | cut -c1-200 | tr '\n' '|')"
done
git -C /repo checkout -- .
