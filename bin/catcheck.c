/* sanity check of the grammar catalogue in harness/gram.h (symbol and rule counts, index ranges); run by bin/setup.sh */
#include <stdio.h>
#include <string.h>
#define sx_param(a,b) (b)
#include "yaep.h"
#define yaep_read_grammar(a,b,c,d) 0
#define yaep_parse_grammar(a,b,c) 0
#include "gram.h"
int main (void)
{
  int g, i, j, bad = 0;
  for (g = 0; g < N_CATALOGUE; g++)
    {
      const struct gram *c = &catalogue[g]; int ns = 0, nr = 0;
      while (ns < G_MAXSYM && c->sym[ns].name) ns++;
      while (nr < G_MAXRULE && (c->rule[nr].n || c->rule[nr].lhs || c->rule[nr].anode || c->rule[nr].ntr)) nr++;
      if (ns != c->nsym) { printf ("%s: nsym %d but %d listed\n", c->id, c->nsym, ns); bad = 1; }
      if (nr > c->nrule) { printf ("%s: nrule %d but %d listed\n", c->id, c->nrule, nr); bad = 1; }
      for (i = 0; i < c->nsym; i++) for (j = 0; j < i; j++) if (strcmp (c->sym[i].name, c->sym[j].name) == 0) { printf ("%s: symbol name %s twice\n", c->id, c->sym[i].name); bad = 1; }
      for (i = 0; i < c->nrule; i++)
        {
          const struct grule *r = &c->rule[i];
          if (r->lhs >= c->nsym || c->sym[r->lhs].kind != SK_NT) { printf ("%s rule %d: lhs\n", c->id, i); bad = 1; }
          for (j = 0; j < r->n; j++) if (r->rhs[j] >= c->nsym) { printf ("%s rule %d: rhs\n", c->id, i); bad = 1; }
          for (j = 0; j < r->ntr; j++) if (r->tr[j] != NILTR && r->tr[j] >= r->n) { printf ("%s rule %d: tr\n", c->id, i); bad = 1; }
          if (!r->anode && r->ntr > 1) { printf ("%s rule %d: ntr without anode\n", c->id, i); bad = 1; }
        }
    }
  printf ("%d grammars, %s\n", N_CATALOGUE, bad ? "BAD" : "ok");
  return bad;
}
