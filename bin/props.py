"""Job plans per property (bounds are in /verif/bounds.json)."""
import json, os, re

VERIF = os.path.dirname(os.path.dirname(os.path.abspath(__file__)))
BOUNDS = json.load(open(os.path.join(VERIF, "bounds.json")))

COMMON_ASSUMPTIONS = [
    "trusted base: the sxvm interpreter of LLVM-14 IR (flat byte-addressed memory, bit-vector semantics) and Z3 4.8.12; validated per run by replaying explored paths natively (gcc -O1 ASan+UBSan build of the same harness and the real sources) and comparing observable traces",
    "IR is clang-14 -O0 (mem2reg, sroa, early-cse, simplifycfg) of /repo's current working tree with -DNDEBUG -DYAEP_VERIF; bison regenerates sgramm.c on every run",
    "libc models (part of the claim): malloc calloc realloc(always moves) free memcpy memmove memset strlen strcmp strcpy strncpy sprintf vsprintf (format engine), fprintf/fputs/fputc (no output), qsort (insertion sort executed inside the VM with the real comparators), ctype table of the C locale, setjmp/longjmp, abort/exit",
    "allocation never fails unless a job injects a failure (sx_fail_alloc_at)",
    "everything outside the stated bounds (longer inputs, other grammars, more terminals) is outside the claim",
]


def catalogue():
    src = open(os.path.join(VERIF, "harness", "gram.h")).read()
    body = src[src.index("static const struct gram catalogue[]"):src.index("#define N_CATALOGUE")]
    out = []
    for m in re.finditer(r'\{ "(G\d+)", \d+, \{([^}]*(?:\{[^}]*\}[^}]*)*?)\}, \d+,', body):
        syms = m.group(2)
        out.append({"id": m.group(1), "nterm": len(re.findall(r"\bT \(", syms)), "err": "ERR" in syms})
    return out


CAT = catalogue()
GIDX = {g["id"]: i for i, g in enumerate(CAT)}


def all_jobs(harness, grammars, maxlen_by_nterm, extra=None, split_from=3):
    """ALL(N) input family: one job per grammar x length (x first token kind for the longer lengths)."""
    jobs = []
    for gid in grammars:
        gi = GIDX[gid]
        nt = CAT[gi]["nterm"]
        N = maxlen_by_nterm.get(str(nt), maxlen_by_nterm.get("default"))
        for ln in range(0, N + 1):
            firsts = [-1] if ln < split_from else list(range(nt))
            for f in firsts:
                p = {"grammar": gi, "len": ln, "first": f}
                p.update(extra or {})
                jobs.append({"harness": harness, "params": p, "weight": nt ** ln})
    return jobs


def plan_C01(tier, seed):
    b = BOUNDS["C01"][tier]
    jobs = all_jobs("hC01.c", b["grammars"], b["all_len"])
    jobs += all_jobs("hC01.c", b["text_grammars"], b["text_len"], {"via_text": 1})
    jobs += all_jobs("hC01.c", b["nonstrict_grammars"], b["text_len"], {"strict": 0})
    wit = [{"harness": "hC01.c", "params": {"grammar": GIDX["G1"], "len": 2, "first": -1, "witness": 1}}]
    return {"jobs": jobs, "witness": wit, "bounds": b,
            "rule": "one state = one complete path of the harness = (catalogue grammar, token-kind sequence of the stated length, one of 24 configurations lookahead x one_parse x cost x recovery); token attributes are symbolic 64-bit values; the solver enumerates exactly the feasible sequences, every assertion is discharged per path",
            "assumptions": ["derivability oracle: naive least fixpoint over spans (spec/oracle.h), independent of yaep"]}


PROPS = {
    "C01": {"plan": plan_C01, "home_faults": False},
}
