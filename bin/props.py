"""Job plans per property (bounds are in /verif/bounds.json)."""
import json, os, re

VERIF = os.path.dirname(os.path.dirname(os.path.abspath(__file__)))
BOUNDS = json.load(open(os.path.join(VERIF, "bounds.json")))

COMMON_ASSUMPTIONS = [
    "trusted base: the sxvm interpreter of LLVM-14 IR (flat byte-addressed memory, bit-vector semantics) and Z3 4.8.12; validated per run by replaying explored paths natively (gcc -O1 ASan+UBSan build of the same harness and the real sources) and comparing observable traces",
    "IR is clang-14 -O0 (mem2reg, sroa, early-cse, simplifycfg) of /repo's current working tree with -DNDEBUG -DYAEP_VERIF; bison regenerates sgramm.c on every run",
    "libc models (part of the claim): malloc calloc realloc(always moves) free memcpy memmove memset strlen strcmp strcpy strncpy sprintf vsprintf (format engine), fprintf/fputs/fputc (no output), qsort (insertion sort executed inside the VM with the real comparators), ctype table of the C locale, setjmp/longjmp, abort/exit",
    "allocation never fails unless a job injects a failure (sx_fail_alloc_at)",
    "everything outside the stated bounds (longer inputs, other grammars, more terminals) is outside the claim",
]


def catalogue():
    src = open(os.path.join(VERIF, "harness", "gram.h")).read()
    body = src[src.index("static const struct gram catalogue[]"):src.index("#define N_CATALOGUE")]
    out = []
    for m in re.finditer(r'\{ "(G\d+)", \d+, \{([^}]*(?:\{[^}]*\}[^}]*)*?)\}, \d+,', body):
        syms = m.group(2)
        out.append({"id": m.group(1), "nterm": len(re.findall(r"\bT \(", syms)), "err": "ERR" in syms})
    return out


CAT = catalogue()
GIDX = {g["id"]: i for i, g in enumerate(CAT)}


def all_jobs(harness, grammars, maxlen_by_nterm, extra=None, split_from=3):
    """ALL(N) input family: one job per grammar x length (x first token kind for the longer lengths)."""
    jobs = []
    for gid in grammars:
        gi = GIDX[gid]
        nt = CAT[gi]["nterm"]
        N = maxlen_by_nterm.get(str(nt), maxlen_by_nterm.get("default"))
        for ln in range(0, N + 1):
            firsts = [-1] if ln < split_from else list(range(nt))
            for f in firsts:
                p = {"grammar": gi, "len": ln, "first": f}
                p.update(extra or {})
                jobs.append({"harness": harness, "params": p, "weight": nt ** ln})
    return jobs


NEAR_BASES = {"G1": 3, "G2": 2, "G3": 3, "G4": 2, "G5": 3, "G6": 2, "G7": 3, "G8": 2, "G9": 3, "G10": 4, "G11": 2, "G12": 4, "G13": 4, "G14": 3, "G15": 4, "G16": 2, "G17": 2, "G18": 2, "G19": 4}


def near_jobs(harness, grammars, edits, extra=None):
    """NEAR(k) input family: every listed base sentence of the grammar with k symbolic edits."""
    jobs = []
    for gid in grammars:
        for bi in range(NEAR_BASES[gid]):
            p = {"grammar": GIDX[gid], "base": bi, "edits": edits}
            p.update(extra or {})
            jobs.append({"harness": harness, "params": p, "weight": 50 ** edits})
    return jobs


def plan_C01(tier, seed):
    b = BOUNDS["C01"][tier]
    jobs = all_jobs("hC01.c", b["grammars"], b["all_len"])
    jobs += all_jobs("hC01.c", b["text_grammars"], b["text_len"], {"via_text": 1})
    jobs += all_jobs("hC01.c", b["nonstrict_grammars"], b["text_len"], {"strict": 0})
    jobs += near_jobs("hC01.c", b["near_grammars"], b["near_edits"])
    wit = [{"harness": "hC01.c", "params": {"grammar": GIDX["G1"], "len": 2, "first": -1, "witness": 1}}]
    return {"jobs": jobs, "witness": wit, "bounds": b,
            "rule": "one state = one complete path of the harness = (catalogue grammar, token-kind sequence of the stated length, one of 24 configurations lookahead x one_parse x cost x recovery); token attributes are symbolic 64-bit values; the solver enumerates exactly the feasible sequences, every assertion is discharged per path",
            "assumptions": ["derivability oracle: naive least fixpoint over spans (spec/oracle.h), independent of yaep"]}


def simple_plan(prop, harness, rule, assumptions, extra_params=None):
    def plan(tier, seed):
        b = BOUNDS[prop][tier]
        ep = dict(extra_params or {})
        for k in ("maxcost", "maxmatch"):
            if k in b:
                ep[k] = b[k]
        jobs = all_jobs(harness, b["grammars"], b["all_len"], ep)
        if "near_grammars" in b:
            jobs += near_jobs(harness, b["near_grammars"], b["near_edits"], ep)
        w = dict(ep); w.update({"grammar": GIDX[b["grammars"][0]], "len": 3, "first": -1, "witness": 1})
        return {"jobs": jobs, "witness": [{"harness": harness, "params": w}], "bounds": b, "rule": rule, "assumptions": assumptions}
    return plan


def plan_C10(tier, seed):
    b = BOUNDS["C10"][tier]
    jobs = []
    for n in range(0, b["max_terms"] + 1):
        jobs.append({"harness": "hC10.c", "params": {"family": 0, "nterm": n}, "weight": 6 ** n})
    for nr in range(1, b["max_rules"] + 1):
        for l0 in range(0, b["max_rhs"] + 1):
            jobs.append({"harness": "hC10.c", "params": {"family": 1, "nrules": nr, "len0": l0, "maxl": b["max_rhs"], "pool": b["pool"]}, "weight": (b["pool"] ** b["max_rhs"]) ** nr})
    jobs.append({"harness": "hC10.c", "params": {"family": 2}, "weight": 50})
    jobs.append({"harness": "hC10.c", "params": {"family": 3}, "weight": 5})
    wit = [{"harness": "hC10.c", "params": {"family": 3, "witness": 1}}]
    return {"jobs": jobs, "witness": wit, "bounds": b,
            "rule": "one state = one grammar definition distinguished by yaep_read_grammar: family 0 = up to max_terms terminals with names from {a,b,c,error,$S,$eof} and codes from {INT_MIN,-1,0,1,2,255,INT_MAX}, chosen lazily when yaep asks for them; family 1 = up to max_rules rules over {S,A,a,b[,B]} with right-hand sides up to max_rhs; family 2 = one rule with abstract node or not, cost symbolic over all int, translation list of up to 3 symbolic non-negative ints; family 3 = one reserved/terminal/undeclared name as left-hand side or in a right-hand side of the first or a later rule; strict_p symbolic",
            "assumptions": ["well-formedness oracle: direct definitions (nullable/productive fixpoints, transitive closure for self-derivation, reachability)"]}


def plan_C11(tier, seed):
    b = BOUNDS["C11"][tier]
    jobs = [{"harness": "hC11.c", "params": {"mode": 0, "grammar": GIDX[g], "maxlen": b["maxlen"]}, "weight": 100} for g in b["grammars"]]
    for n in range(1, b["nbytes"] + 1):
        jobs.append({"harness": "hC11.c", "params": {"mode": 1, "nbytes": n}, "weight": 30 ** n})
    jobs.append({"harness": "hC11.c", "params": {"mode": 2}, "weight": 20})
    wit = [{"harness": "hC11.c", "params": {"mode": 2, "witness": 1}}]
    return {"jobs": jobs, "witness": wit, "bounds": b,
            "rule": "mode 0: one state = (catalogue grammar rendered as text, layout style x optional semicolons x comment x symbolic white-space byte, one_parse); inside the path the text-defined and the callback-defined twin are compared on every token sequence up to maxlen; mode 1: one state = one class of byte strings of the stated length that the lexer/parser distinguishes (bytes fully symbolic); mode 2: character constant with symbolic character 1..127",
            "assumptions": ["denoted grammar of a rendering computed by the harness (implicit codes 256.. in order of appearance)", "characters above 127 in character constants are outside the claim (char signedness)"]}


TREE_ORACLE = "translation oracle: exhaustive enumeration of all derivations over all splits with the documented translation rules (spec/oracle.h), hash-consed; DAG side: one alternative per ALT occurrence"

PROPS = {
    "C01": {"plan": plan_C01, "home_faults": False},
    "C02": {"plan": simple_plan("C02", "hC02.c", "one state = (catalogue grammar, sentence of the stated length chosen by the solver, lookahead level); token attributes symbolic 64-bit, so 'TERM carries the attribute of its position' is a solver verdict", [TREE_ORACLE]), "home_faults": False},
    "C03": {"plan": simple_plan("C03", "hC03.c", "one state = (catalogue grammar, sentence, lookahead level) with all parses requested; set equality denoted(DAG) = translations checked in both directions per path", [TREE_ORACLE, "inputs whose denoted set exceeds 700 trees per node are counted and skipped"]), "home_faults": False},
    "C04": {"plan": simple_plan("C04", "hC04.c", "one state = (grammar, sentence, lookahead x one_parse x parse_free given/NULL) x one ordering class of the symbolic rule costs that prune_to_minimal distinguishes; each assertion is decided by Z3 for all costs in the class", [TREE_ORACLE, "abstract-node costs symbolic in 0..maxcost, names unique per rule"]), "home_faults": False},
    "C06": {"plan": simple_plan("C06", "hRec.c", "one state = (grammar, non-sentence of the stated length, lookahead x recovery on/off x one_parse, recovery_match 1..maxmatch); attributes symbolic", ["viable-prefix oracle (spec/oracle.h) with `error' as an ordinary terminal"]), "home_faults": False, "label_prefix": "C06:"},
    "C07": {"plan": simple_plan("C07", "hRec.c", "one state = (grammar, token sequence, lookahead x recovery x one_parse, recovery_match); the tree is matched against the translations of every repaired input with the reported total of replaced tokens", [TREE_ORACLE, "repairs enumerated for at most 3 syntax_error calls per input"], {"only_errors": 0}), "home_faults": False, "label_prefix": "C07:"},
    "C08": {"plan": simple_plan("C08", "hRec.c", "one state = (grammar, non-sentence, lookahead x one_parse, recovery_match); minimal simple-recovery cost computed by the viable-prefix oracle over all (back position, forward skip) pairs", ["viable-prefix oracle (spec/oracle.h)"]), "home_faults": False, "label_prefix": "C08:"},
    "C09": {"plan": simple_plan("C09", "hC09.c", "one state = (grammar, input from ALL(N) or NEAR(k), one_parse x cost x recovery); inside the path the input is parsed with lookahead 0,1,2,-3,7 and debug levels 0,1,-1,6,3 and all observables are compared; with -DYAEP_VERIF every goto-cache hit is re-computed and compared", ["debug output goes to a sink (fprintf model evaluates arguments only)"]), "home_faults": False},
    "C10": {"plan": plan_C10, "home_faults": False},
    "C11": {"plan": plan_C11, "home_faults": False},
    "C05": {"plan": simple_plan("C05", "hC05.c", "one state = (grammar, sentence, lookahead x one_parse x cost)", [TREE_ORACLE, "derivation count capped at 1000"]), "home_faults": False},
}
