"""Job plans per property (bounds are in /verif/bounds.json)."""
import json, os, re

VERIF = os.path.dirname(os.path.dirname(os.path.abspath(__file__)))
BOUNDS = json.load(open(os.path.join(VERIF, "bounds.json")))

COMMON_ASSUMPTIONS = [
    "trusted base: the sxvm interpreter of LLVM-14 IR (flat byte-addressed memory, bit-vector semantics) and Z3 4.8.12; validated per run by replaying explored paths natively (gcc -O1 ASan+UBSan build of the same harness and the real sources) and comparing observable traces",
    "IR is clang-14 -O0 (mem2reg, sroa, early-cse, simplifycfg) of /repo's current working tree with -DNDEBUG -DYAEP_VERIF; bison regenerates sgramm.c on every run",
    "libc models (part of the claim): malloc calloc realloc(always moves) free memcpy memmove memset strlen strcmp strcpy strncpy sprintf vsprintf (format engine), fprintf/fputs/fputc (no output), qsort (insertion sort executed inside the VM with the real comparators), ctype table of the C locale, setjmp/longjmp, abort/exit",
    "allocation never fails unless a job injects a failure (sx_fail_alloc_at)",
    "everything outside the stated bounds (longer inputs, other grammars, more terminals) is outside the claim",
]


def catalogue():
    src = open(os.path.join(VERIF, "harness", "gram.h")).read()
    body = src[src.index("static const struct gram catalogue[]"):src.index("#define N_CATALOGUE")]
    out = []
    for m in re.finditer(r'\{ "(G\d+)", \d+, \{([^}]*(?:\{[^}]*\}[^}]*)*?)\}, \d+,', body):
        syms = m.group(2)
        out.append({"id": m.group(1), "nterm": len(re.findall(r"\bT \(", syms)), "err": "ERR" in syms})
    return out


CAT = catalogue()
GIDX = {g["id"]: i for i, g in enumerate(CAT)}


def all_jobs(harness, grammars, maxlen_by_nterm, extra=None, split_from=3):
    """ALL(N) input family: one job per grammar x length (x first token kind for the longer lengths)."""
    jobs = []
    for gid in grammars:
        gi = GIDX[gid]
        nt = CAT[gi]["nterm"]
        N = maxlen_by_nterm.get(gid, maxlen_by_nterm.get(str(nt), maxlen_by_nterm.get("default")))   # per-grammar override, then per terminal count
        for ln in range(0, N + 1):
            firsts = [-1] if ln < split_from else list(range(nt))
            for f in firsts:
                p = {"grammar": gi, "len": ln, "first": f}
                p.update(extra or {})
                jobs.append({"harness": harness, "params": p, "weight": nt ** ln})
    return jobs


NEAR_BASES = {"G1": 4, "G2": 2, "G3": 3, "G4": 2, "G5": 3, "G6": 2, "G7": 3, "G8": 2, "G9": 4, "G10": 4, "G11": 2, "G12": 4, "G13": 4, "G14": 3, "G15": 4, "G16": 2, "G17": 2, "G18": 2, "G19": 4, "G20": 3, "G21": 4, "G22": 4, "G23": 3, "G24": 4, "G25": 4, "G26": 1, "G27": 2, "G28": 2, "G29": 4, "G30": 4, "G31": 4, "G32": 4, "G33": 4, "G34": 4, "G35": 4, "G36": 4, "G37": 4, "G38": 4, "G39": 2, "G40": 2, "G41": 4, "G42": 4, "G43": 4, "G44": 2, "G45": 1, "G46": 2, "G47": 2}


def near_jobs(harness, grammars, edits, extra=None):
    """NEAR(k) input family: every listed base sentence of the grammar with k symbolic edits."""
    jobs = []
    for gid in grammars:
        for bi in range(NEAR_BASES[gid]):
            p = {"grammar": GIDX[gid], "base": bi, "edits": edits}
            p.update(extra or {})
            jobs.append({"harness": harness, "params": p, "weight": 50 ** edits})
    return jobs


def rep_jobs(harness, b, extra=None):
    """REP(m) input family: m fragments chosen from the grammar's list (harness/ph.h rep_frags) plus a tail."""
    jobs = []
    for gid, spec in (b.get("rep") or {}).items():
        m, nfrag = spec
        for f0 in range(nfrag):       # one job per first fragment
            p = {"grammar": GIDX[gid], "rep": m, "nfrag": nfrag, "frag0": f0}
            p.update(extra or {})
            jobs.append({"harness": harness, "params": p, "weight": 3 * nfrag ** (m - 1)})
    return jobs


PAD_RULE = "; pad slices: NEAR(1) inputs of pad_grammars with 70 unused terminals declared after or before the grammar's own, so that terminal sets span two machine words"
AGAIN_RULE = "; extra_all slices with again=1: the reported parse is the second one of the same grammar object on the same input, after the owner has released the first result"
REP_RULE = "; input family REP(m): m fragments, each chosen from the first nfrag entries of the grammar's fragment list, followed by one of its tails (repeated phrases: goto cache, context table)"


def sg_jobs(prop, b):
    """symbolic grammar family SG(R, L): one job per (number of rules, length of the first right-hand side)"""
    sg = b.get("sg")
    if not sg:
        return []
    jobs = []
    for nr in range(1, sg["maxr"] + 1):
        for l0 in range(0, sg["maxl"] + 1):
            base = {"prop": prop, "maxr": sg["maxr"], "maxl": sg["maxl"], "maxlen": sg["maxlen"], "nrules": nr, "len0": l0}
            w = (4 ** sg["maxl"] * (5 if prop != 1 else 1)) ** nr
            if nr >= 3:
                # the largest slices are split by the shape of the second rule
                for lhs1 in range(2):
                    for l1 in range(0, sg["maxl"] + 1):
                        p = dict(base); p.update({"lhs1": lhs1, "len1": l1})
                        jobs.append({"harness": "hSG.c", "params": p, "weight": w // 6})
            else:
                jobs.append({"harness": "hSG.c", "params": base, "weight": w})
    return jobs


SG_RULE = "; symbolic grammar family SG(R, L): one state = one grammar of up to R rules over {S, A, a, b} with right-hand sides up to L symbols (for the tree properties also one of five translation shapes per rule) that yaep accepts, strict or not; inside the path every token sequence over {a, b} up to maxlen is parsed under lookahead 0, 1, 2 and compared with the oracle"


def plan_C01(tier, seed):
    b = BOUNDS["C01"][tier]
    jobs = all_jobs("hC01.c", b["grammars"], b["all_len"])
    jobs += all_jobs("hC01.c", b["text_grammars"], b["text_len"], {"via_text": 1})
    jobs += all_jobs("hC01.c", b["nonstrict_grammars"], b["text_len"], {"strict": 0})
    jobs += near_jobs("hC01.c", b["near_grammars"], b["near_edits"])
    jobs += rep_jobs("hC01.c", b)
    for x in b.get("extra_all", []):
        jobs += all_jobs("hC01.c", x["grammars"], x["all_len"], x["params"])
    for pad in b.get("pad", []):
        jobs += near_jobs("hC01.c", b["pad_grammars"], 1, {"pad": pad})
    jobs += sg_jobs(1, b)
    wit = [{"harness": "hC01.c", "params": {"grammar": GIDX["G1"], "len": 2, "first": -1, "witness": 1}}]
    return {"jobs": jobs, "witness": wit, "bounds": b,
            "rule": "one state = one complete path of the harness = (catalogue grammar, token-kind sequence of the stated length, one of 24 configurations lookahead x one_parse x cost x recovery); token attributes are symbolic 64-bit values; the solver enumerates exactly the feasible sequences, every assertion is discharged per path" + REP_RULE + AGAIN_RULE + PAD_RULE + SG_RULE,
            "assumptions": ["derivability oracle: naive least fixpoint over spans (spec/oracle.h), independent of yaep"]}


def sge_jobs(b, ep):
    """symbolic grammars with `error' for the recovery checks"""
    sg = b.get("sge")
    if not sg:
        return []
    jobs = []
    for nr in range(1, sg["maxr"] + 1):
        for l0 in range(0, sg["maxl"] + 1):
            for ln in range(0, sg["maxlen"] + 1):
                p = dict(ep); p.update({"sg": 1, "maxr": sg["maxr"], "maxl": sg["maxl"], "nrules": nr, "len0": l0, "len": ln})
                if nr >= 2 and l0 == sg["maxl"] and ln >= 1:
                    # the largest slices are split by the shape of the second rule
                    for lhs1 in range(2):
                        for l1 in range(0, sg["maxl"] + 1):
                            q = dict(p); q.update({"lhs1": lhs1, "len1": l1})
                            jobs.append({"harness": "hRec.c", "params": q, "weight": (5 ** sg["maxl"]) ** nr * 2 ** ln // 6})
                    continue
                jobs.append({"harness": "hRec.c", "params": p, "weight": (5 ** sg["maxl"]) ** nr * 2 ** ln})
    return jobs


def simple_plan(prop, harness, rule, assumptions, extra_params=None, sg_prop=None):
    def plan(tier, seed):
        b = BOUNDS[prop][tier]
        ep = dict(extra_params or {})
        for k in ("maxcost", "maxmatch", "repair_maxlen", "repair_kmax"):
            if k in b:
                ep[k] = b[k]
        jobs = all_jobs(harness, b["grammars"], b["all_len"], ep)
        if "near_grammars" in b:
            jobs += near_jobs(harness, b["near_grammars"], b["near_edits"], ep)
        jobs += rep_jobs(harness, b, ep)
        for pad in b.get("pad", []):          # unused terminals declared after (> 0) or before (< 0) the grammar's own
            xp = dict(ep); xp["pad"] = pad
            jobs += near_jobs(harness, b["pad_grammars"], 1, xp)
        for x in b.get("extra_all", []):      # further ALL(N) slices under extra harness parameters
            xp = dict(ep); xp.update(x["params"])
            jobs += all_jobs(harness, x["grammars"], x["all_len"], xp)
        if sg_prop:
            jobs += sg_jobs(sg_prop, b)
        if harness == "hRec.c":
            jobs += sge_jobs(b, ep)
        w = dict(ep); w.update({"grammar": GIDX[b["grammars"][0]], "len": 3, "first": -1, "witness": 1})
        return {"jobs": jobs, "witness": [{"harness": harness, "params": w}], "bounds": b, "defs": tuple(b.get("defs", ())), "rule": rule + (REP_RULE if "rep" in b else "") + (AGAIN_RULE if "extra_all" in b else "") + (PAD_RULE if "pad" in b else "") + (SG_RULE if sg_prop else ""), "assumptions": assumptions}
    return plan


def plan_C10(tier, seed):
    b = BOUNDS["C10"][tier]
    jobs = []
    for n in range(0, b["max_terms"] + 1):
        jobs.append({"harness": "hC10.c", "params": {"family": 0, "nterm": n}, "weight": 6 ** n})
    for nr in range(1, b["max_rules"] + 1):
        for l0 in range(0, b["max_rhs"] + 1):
            jobs.append({"harness": "hC10.c", "params": {"family": 1, "nrules": nr, "len0": l0, "maxl": b["max_rhs"], "pool": b["pool"]}, "weight": (b["pool"] ** b["max_rhs"]) ** nr})
    jobs.append({"harness": "hC10.c", "params": {"family": 2}, "weight": 50})
    jobs.append({"harness": "hC10.c", "params": {"family": 3}, "weight": 5})
    jobs.append({"harness": "hC10.c", "params": {"family": 4, "maxdepth": b.get("max_chain", 4)}, "weight": 5})
    jobs.append({"harness": "hC10.c", "params": {"family": 5, "pool": 5}, "weight": 7200})
    wit = [{"harness": "hC10.c", "params": {"family": 3, "witness": 1}}]
    return {"jobs": jobs, "witness": wit, "bounds": b,
            "rule": "one state = one grammar definition distinguished by yaep_read_grammar: family 0 = up to max_terms terminals with names from {a,b,c,error,$S,$eof} and codes from {INT_MIN,-1,0,1,2,255,INT_MAX}, chosen lazily when yaep asks for them; family 1 = up to max_rules rules over {S,A,a,b[,B]} with right-hand sides up to max_rhs; family 2 = one rule with abstract node or not, cost symbolic over all int, translation list of up to 3 symbolic non-negative ints; family 3 = one reserved/terminal/undeclared name as left-hand side or in a right-hand side of the first or a later rule; family 4 = unit-rule chains of depth 1..max_chain ending in an empty or a terminal rule, with or without the rule N0 : N0 N0 (self-derivation through a nullable sibling) and with or without terminal alternatives; family 5 = three rules over {S,A,a,b,B}, the first two with at most one right-hand-side symbol, the third with two; strict_p symbolic",
            "assumptions": ["well-formedness oracle: direct definitions (nullable/productive fixpoints, transitive closure for self-derivation, reachability)"]}


def plan_C11(tier, seed):
    b = BOUNDS["C11"][tier]
    jobs = [{"harness": "hC11.c", "params": {"mode": 0, "grammar": GIDX[g], "maxlen": b["maxlen"]}, "weight": 100} for g in b["grammars"]]
    jobs += [{"harness": "hC11.c", "params": {"mode": 0, "hist": 1, "grammar": GIDX[g], "maxlen": b["maxlen"]}, "weight": 40} for g in b.get("hist_grammars", [])]
    for n in range(1, b["nbytes"] + 1):
        jobs.append({"harness": "hC11.c", "params": {"mode": 1, "nbytes": n}, "weight": 30 ** n})
    jobs.append({"harness": "hC11.c", "params": {"mode": 2}, "weight": 20})
    jobs.append({"harness": "hC11.c", "params": {"mode": 3}, "weight": 300})
    wit = [{"harness": "hC11.c", "params": {"mode": 2, "witness": 1}}]
    return {"jobs": jobs, "witness": wit, "bounds": b,
            "rule": "mode 0: one state = (catalogue grammar rendered as text, layout style x optional semicolons x comment x symbolic white-space byte, one_parse); inside the path the text-defined and the callback-defined twin are compared on every token sequence up to maxlen; with hist=1 (hist_grammars) the layout is fixed except the style and one of five other descriptions (syntax error, bad translation number, repeated code, accepted, conflicting redeclaration) is read first by the same or another object; mode 1: one state = one class of byte strings of the stated length that the lexer/parser distinguishes (bytes fully symbolic); mode 2: character constant with symbolic character 1..127; mode 3: four erroneous descriptions with each gap between tokens chosen from {blank, newline, two newlines, newline + comment}",
            "assumptions": ["denoted grammar of a rendering computed by the harness (implicit codes 256.. in order of appearance)", "characters above 127 in character constants are outside the claim (char signedness)"]}


def plan_C13(tier, seed):
    b = BOUNDS["C13"][tier]
    jobs = []
    for mode in (0, 1, 2):
        jobs += all_jobs("hC13.c", b["grammars"], b["all_len"], {"mode": mode, "rec": 1})
    jobs += all_jobs("hC13.c", b["grammars2"], b["len2"], {"mode": 0, "rec": 0})
    jobs += all_jobs("hC13.c", b["grammars2"], b["len2"], {"mode": 0, "two_parses": 1})
    jobs += all_jobs("hC13.c", b["grammars2"], b["len2"], {"mode": 2, "two_parses": 1})
    jobs += all_jobs("hC13.c", b["grammars2"], b["len2"], {"mode": 0, "via_text": 1})
    wit = [{"harness": "hC13.c", "params": {"grammar": GIDX["G3"], "len": 3, "first": -1, "mode": 0, "witness": 1}}]
    return {"jobs": jobs, "witness": wit, "bounds": b,
            "rule": "one state = (grammar, token sequence, lookahead x one_parse x cost, allocator mode: caller alloc+free / caller alloc only / default allocator, one or two parses, definition by callbacks or text); the harness allocator keeps a table of live blocks, definition buffers are overwritten with symbolic garbage right after the defining call",
            "assumptions": ["built-in VM memory checks (use after free, double free, out of bounds) are part of this check", TREE_ORACLE]}


def plan_C15(tier, seed):
    b = BOUNDS["C15"][tier]
    jobs = [{"harness": "hC15.c", "params": {"mode": 0}}, {"harness": "hC15.c", "params": {"mode": 2}}]
    for cs in range(5):
        for n in b["ntok"]:
            jobs.append({"harness": "hC15.c", "params": {"mode": 1, "codeset": cs, "ntok": n}, "weight": 10})
    wit = [{"harness": "hC15.c", "params": {"mode": 2, "witness": 1}}]
    return {"jobs": jobs, "witness": wit, "bounds": b,
            "rule": "mode 0: one state per setter, both arguments symbolic over all int; mode 1: one state = (declared code set: dense with holes / sparse (hash table) / single / containing 0 / six codes, position of the symbolic token, lookahead, recovery) x one class of the 2^32 token codes that the lookup distinguishes, each class decided by one query; mode 2: eight call sequences (undefined grammar, allocator contract, error-state order, two objects, invalid token then good parse, settings across a successful parse and across a parse that runs out of memory at any internal allocation - all five setter arguments symbolic over all int)",
            "assumptions": []}


def plan_C14(tier, seed):
    b = BOUNDS["C14"][tier]
    jobs = [{"harness": "hC14.c", "params": {"steps": k, "objects": n}, "weight": (15 * n) ** k} for (k, n) in b["histories"]]
    jobs += [{"harness": "hC14.c", "params": {"steps": k, "objects": n, "g0": GIDX[g0], "g1": GIDX[g1]}, "weight": (15 * n) ** k} for (k, n, g0, g1) in b.get("other_pools", [])]
    jobs += [{"harness": "hC14.c", "params": {"steps": k, "objects": n, "predef": 1, "la0": la, "g0": GIDX[g0]}, "weight": (15 * n) ** k} for (k, n, la, g0) in b.get("predefined", [])]
    wit = [{"harness": "hC14.c", "params": {"steps": 2, "objects": 1, "witness": 1}}]
    return {"jobs": jobs, "witness": wit, "bounds": b,
            "rule": "one state = one history of `steps' API calls over `objects' grammar objects; each call is one of 15 actions (create, free, 6 definitions of which 4 are defective, 3 setting changes, parse of one of three sentences / a non-sentence) on a symbolic target; the good definitions are G3 and G10 (`other_pools': other pairs with different numbers of terminals); `predefined' histories start with objects that already have a good definition under the stated lookahead level; the trees of a parse are released before the next call; histories that call an action on a non-existing object are pruned by assumption",
            "assumptions": ["reference for each call: the same call on a fresh object given only the target's current definition and settings", "built-in VM memory checks (use after free, double free, leaks via live-block count) are part of this check"]}


def plan_C17(tier, seed):
    b = BOUNDS["C17"][tier]
    jobs = [{"harness": "hC17.c", "params": {"scenario": 0, "grammar": 0, "len": 0}}]
    for g in b["grammars"]:
        for how in range(4):
            jobs.append({"harness": "hC17.c", "params": {"scenario": 1, "how": how, "grammar": GIDX[g], "len": 0}, "weight": 20})
        jobs += all_jobs("hC17.c", [g], b["all_len"], {"scenario": 2}, split_from=1)
    jobs += all_jobs("hC17.c", b["grammars"][:1], {"default": 2}, {"scenario": 2, "other": 1}, split_from=1)
    jobs.append({"harness": "hC17.c", "params": {"scenario": 1, "how": 0, "other": 1, "grammar": GIDX[b["grammars"][0]], "len": 1}, "weight": 20})
    # inputs and grammars large enough for the growing arrays to be reallocated
    jobs.append({"harness": "hC17.c", "params": {"scenario": 2, "grammar": GIDX["G1"], "base": 3, "edits": 0}, "weight": 500})
    jobs.append({"harness": "hC17.c", "params": {"scenario": 3, "grammar": 0, "len": 0, "nterm": b.get("big_terms", 70)}, "weight": 300})
    jobs.append({"harness": "hC17.c", "params": {"scenario": 4, "grammar": 0, "len": 0, "nterm": b.get("big_terms", 70)}, "weight": 300})
    wit = [{"harness": "hC17.c", "params": {"scenario": 1, "how": 0, "grammar": 0, "len": 0, "witness": 1}}]
    return {"jobs": jobs, "witness": wit, "bounds": b,
            "rule": "one state = (scenario: create / definition by callbacks, by text, defective, text with syntax error / parse of a token sequence under one of 24 configurations [/ with a second healthy object alive] / definition of a 70-terminal grammar / parse with that grammar (tables that outgrow the initial object-stack segments at once), index k of the failing libc allocation); k is symbolic in [0, A) where A is the number of allocations of the fault-free call measured in the same path",
            "assumptions": ["the caller's parse_alloc never fails (static arena)", "single failure per call; the failing request is malloc/calloc/realloc of the C library"]}


def plan_C19(tier, seed):
    b = BOUNDS["C19"][tier]
    D = ("OS_DEFAULT_SEGMENT_LENGTH=16", "VLO_DEFAULT_LENGTH=4")
    jobs = []
    for src, lib in (("hC19.c", "containers"), ("hC19x.cpp", "cxxcontainers")):
        for e0 in range(b["hash_elements"]):
            for o0 in range(4):
                jobs.append({"harness": src, "defs": D, "lib": lib, "params": {"mode": 0, "steps": b["hash_steps"], "elements": b["hash_elements"], "hmax": b["hmax"], "size": 0, "el0": e0, "op0": o0}, "weight": 3000 if o0 == 0 else 1000})
        for op0 in range(8):
            jobs.append({"harness": src, "defs": D, "lib": lib, "params": {"mode": 1, "steps": b["os_steps"], "op0": op0}, "weight": 800})
        for op0 in range(5):
            jobs.append({"harness": src, "defs": D, "lib": lib, "params": {"mode": 1, "opset": 1, "steps": b.get("os_long_steps", 6), "op0": op0}, "weight": 5 ** (b.get("os_long_steps", 6) - 1) * 3})
        for op0 in range(7):
            jobs.append({"harness": src, "defs": D, "lib": lib, "params": {"mode": 2, "steps": b["vlo_steps"], "op0": op0}, "weight": 800})
    # inductive step of the C hash table: one operation from every state that satisfies the representation invariant
    for (size, nel) in b["step_tables"]:
        for op0 in range(3):
            for el0 in range(nel):
                jobs.append({"harness": "hC19.c", "defs": D, "lib": "containers", "params": {"mode": 3, "size": size, "elements": nel, "hmax": b["step_hmax"], "op0": op0, "el0": el0}, "weight": 2000})
    wit = [{"harness": "hC19.c", "defs": D, "lib": "containers", "params": {"mode": 2, "steps": 2, "witness": 1}}]
    return {"jobs": jobs, "witness": wit, "bounds": b, "defs": D, "cxx": True,
            "rule": "one state = one history of `steps' container operations from a fresh container with symbolic operation kinds and sizes from {0,1,15,16,17,24} bytes (segment length 16 / initial VLO length 4 so that growth and segment changes occur); object stack additionally: histories of os_long_steps operations over {append 1 / 15 / 24 bytes, finish, empty}; hash table: elements with symbolic hash values, initial size 0 so that every history crosses expansions; after every operation the full abstract contents are compared with the model; inductive step (C hash table): one state = one table of the stated size whose slots are empty / deleted / one of the elements (chosen by the solver), constrained only by the representation invariant (each element at most once and reachable on its own probe sequence before the first empty slot, counters consistent, one empty slot), followed by one operation; hash values symbolic in 0..step_hmax",
            "assumptions": ["realloc always moves the block (VM and native wrapper)", "units verified: hashtab.c, objstack.c + objstack.h macros, vlobject.c + vlobject.h macros, allocate.c; hashtab.cpp, objstack.cpp, vlobject.cpp and the inline members of classes hash_table, os, vlo (clang++-14 -fno-exceptions, operator new never fails)"]}


def plan_C16(tier, seed):
    b = BOUNDS["C16"][tier]
    X = {"lib": "both", "extra_src": ("shim16.cpp",)}
    jobs = []
    for how in (0, 1):
        for j in all_jobs("hC16.c", b["grammars"] if how == 0 else b["text_grammars"], b["all_len"], {"how": how}):
            j.update(X); jobs.append(j)
    for how in (2, 3):
        for j in all_jobs("hC16.c", b["grammars"][:2], {"default": 1}, {"how": how}):
            j.update(X); jobs.append(j)
    for j in all_jobs("hC16.c", b["text_grammars"], {"default": 3}, {"how": 0, "default_alloc": 1}):
        j.update(X); jobs.append(j)
    for j in near_jobs("hC16.c", b["near_grammars"], 1, {"how": 0}):
        j.update(X); jobs.append(j)
    for j in all_jobs("hC16.c", b["text_grammars"][:1], {"default": 1}, {"how": 0, "default_alloc": 2}):
        j.update(X); jobs.append(j)
    for n in b.get("long_rules", [100]):
        for j in all_jobs("hC16.c", b["long_grammars"], {"default": 2}, {"how": 0, "long_first": n}):
            j.update(X); jobs.append(j)
    w = {"harness": "hC16.c", "params": {"grammar": GIDX["G3"], "len": 3, "first": -1, "how": 0, "witness": 1}}
    w.update(X)
    return {"jobs": jobs, "witness": [w], "bounds": b, "cxx": True,
            "rule": "one state = (grammar defined by callbacks / by description / defective / description with syntax error, token sequence, one of 24 configurations, recovery_match 1..3, caller or default allocator); libyaep (yaep.c, hashtab.c, objstack.c, vlobject.c) and libyaep++ (yaep.cpp, hashtab.cpp, objstack.cpp, vlobject.cpp) are linked into one module and driven with identical symbolic inputs",
            "assumptions": ["C++ units compiled with clang++-14 -fno-exceptions; operator new never fails", "the unmangled globals of yaep.cpp's copy of yaep.c are internalized so that both libraries fit in one module"]}


def plan_C12(tier, seed):
    b = BOUNDS["C12"][tier]
    jobs = [{"harness": "hC12.c", "params": {"mode": 0}, "weight": 100}]
    for n in b["nterms"]:
        jobs.append({"harness": "hC12.c", "params": {"mode": 1, "nterm": n}, "weight": 100})
    for g in b["flag_grammars"]:
        jobs.append({"harness": "hC12.c", "params": {"mode": 2, "grammar": GIDX[g], "len": b["flag_len"]}, "weight": 200})
    # the same scenario classes as the other checks, in fault-only mode (their assertions are not counted here)
    jobs += near_jobs("hC01.c", b["near_grammars"], b["near_edits"])
    jobs += all_jobs("hRec.c", b["rec_grammars"], b["rec_len"], {"only_errors": 0, "maxmatch": 3})
    jobs += all_jobs("hC04.c", b["cost_grammars"], b["cost_len"], {"maxcost": 3})
    jobs += all_jobs("hC13.c", b["cost_grammars"], b["cost_len"], {"mode": 0, "rec": 1})
    for n in range(1, b["nbytes"] + 1):
        jobs.append({"harness": "hC11.c", "params": {"mode": 1, "nbytes": n}, "weight": 30 ** n})
    for cs in range(5):
        jobs.append({"harness": "hC15.c", "params": {"mode": 1, "codeset": cs, "ntok": 2}, "weight": 10})
    for n in range(0, 3):
        jobs.append({"harness": "hC10.c", "params": {"family": 0, "nterm": n}, "weight": 6 ** n})
    jobs.append({"harness": "hC10.c", "params": {"family": 2}, "weight": 50})
    wit = [{"harness": "hC12.c", "params": {"mode": 0, "witness": 1}}]
    return {"jobs": jobs, "witness": wit, "bounds": b, "defs": tuple(b.get("defs", ())),
            "rule": "one state = one path of one of the harnesses: dedicated jobs (symbol names of 0..300 characters in five defect messages; 200 terminals with dense or sparse codes and a token code symbolic over all int; all setter arguments symbolic incl. recovery_match <= 0 and debug levels) plus the scenario classes of C01, C04, C06-C08, C10, C11, C13, C15 in fault-only mode; counted are the VM's built-in faults (out of bounds, use after free, double free, uninitialised use, signed overflow, division by zero, over-wide shift, NULL dereference, abort/exit, instruction budget) and the C12-labelled assertions",
            "assumptions": ["instruction budget 400 M per path stands for 'returns in bounded time'", "uninitialised-memory tracking is byte-precise with conservative propagation through arithmetic; a report counts only if the native sanitizer run also faults"]}


TREE_ORACLE = "translation oracle: exhaustive enumeration of all derivations over all splits with the documented translation rules (spec/oracle.h), hash-consed; DAG side: one alternative per ALT occurrence"

PROPS = {
    "C01": {"plan": plan_C01, "home_faults": False},
    "C02": {"plan": simple_plan("C02", "hC02.c", "one state = (catalogue grammar, sentence of the stated length chosen by the solver, lookahead level); token attributes symbolic 64-bit, so 'TERM carries the attribute of its position' is a solver verdict; extra_all again=1: the object parses the input a second time after the first tree has been released, the second tree is checked", [TREE_ORACLE], sg_prop=2), "home_faults": False},
    "C03": {"plan": simple_plan("C03", "hC03.c", "one state = (catalogue grammar, sentence, lookahead level) with all parses requested; set equality denoted(DAG) = translations checked in both directions per path", [TREE_ORACLE, "inputs whose denoted set exceeds 700 trees per node are counted and skipped"], sg_prop=3), "home_faults": False},
    "C04": {"plan": simple_plan("C04", "hC04.c", "one state = (grammar, sentence, lookahead x one_parse x parse_free given/NULL) x one ordering class of the symbolic rule costs that prune_to_minimal distinguishes; each assertion is decided by Z3 for all costs in the class", [TREE_ORACLE, "abstract-node costs symbolic in 0..maxcost, names unique per rule"]), "home_faults": False},
    "C06": {"plan": simple_plan("C06", "hRec.c", "one state = (grammar, non-sentence of the stated length, lookahead x recovery on/off x one_parse, recovery_match 1..maxmatch); attributes symbolic", ["viable-prefix oracle (spec/oracle.h) with `error' as an ordinary terminal"]), "home_faults": False, "label_prefix": "C06:"},
    "C07": {"plan": simple_plan("C07", "hRec.c", "one state = (grammar, token sequence, lookahead x recovery x one_parse, recovery_match); the tree is matched against the translations of every repaired input with the reported total of replaced tokens", [TREE_ORACLE, "repairs enumerated for at most 3 syntax_error calls per input"], {"only_errors": 0}), "home_faults": False, "label_prefix": "C07:"},
    "C08": {"plan": simple_plan("C08", "hRec.c", "one state = (grammar, non-sentence, lookahead x one_parse, recovery_match); minimal simple-recovery cost computed by the viable-prefix oracle over all (back position, forward skip) pairs", ["viable-prefix oracle (spec/oracle.h)"]), "home_faults": False, "label_prefix": "C08:"},
    "C09": {"plan": simple_plan("C09", "hC09.c", "one state = (grammar, input from ALL(N) or NEAR(k), one_parse x cost x recovery); inside the path the input is parsed with lookahead 0,1,2,-3,7 and debug levels 0,1,-1,6,3 and all observables are compared; with -DYAEP_VERIF every goto-cache hit is re-computed and compared", ["debug output goes to a sink (fprintf model evaluates arguments only)"]), "home_faults": False},
    "C10": {"plan": plan_C10, "home_faults": False},
    "C12": {"plan": plan_C12, "home_faults": True, "label_prefix": "C12:"},
    "C13": {"plan": plan_C13, "home_faults": True},
    "C16": {"plan": plan_C16, "home_faults": True},
    "C19": {"plan": plan_C19, "home_faults": True},
    "C17": {"plan": plan_C17, "home_faults": True},
    "C14": {"plan": plan_C14, "home_faults": True},
    "C15": {"plan": plan_C15, "home_faults": False},
    "C11": {"plan": plan_C11, "home_faults": False},
    "C05": {"plan": simple_plan("C05", "hC05.c", "one state = (grammar, sentence, lookahead x one_parse x cost)", [TREE_ORACLE, "derivation count capped at 1000"], sg_prop=5), "home_faults": False},
}
