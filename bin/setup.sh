#!/bin/sh
# MANIFEST.setup_cmd: build the engine offline from the sources in /verif/vm
set -e
cd "$(dirname "$0")/.."
rm -rf vm/obj vm/sxvm
sh vm/build.sh
test -x vm/sxvm
REPO=${YAEP_REPO:-/repo}
cc -w -I harness -I spec -I $REPO/src bin/catcheck.c -o vm/obj/catcheck && vm/obj/catcheck
mkdir -p evidence/replays
echo "setup ok"
