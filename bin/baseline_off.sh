#!/bin/sh
# runs the repository's 120-test baseline with the verification guard OFF (plain upstream build of
# /repo's current working tree in a scratch build directory, removed afterwards)
set -e
B=$(mktemp -d /var/tmp/yaep-baseline.XXXXXX)
trap 'rm -rf "$B"' EXIT
cmake -G Ninja -S /repo -B "$B" -DCMAKE_BUILD_TYPE=RelWithDebInfo >/dev/null 2>&1
# yaep.c #includes the bison output; generate it before the parallel build starts
cmake --build "$B" --target sgramm_c >/dev/null 2>&1
# the compare_parsers targets have build-order races in a fresh tree (they are not part of the baseline): keep going, then retry once
cmake --build "$B" -- -k 0 >"$B/build.log" 2>&1 || cmake --build "$B" -- -k 0 >>"$B/build.log" 2>&1 || true
ctest --test-dir "$B" -j8 --timeout 900 -R "^yaep(\\+\\+)?-test" 2>&1 | grep -E "Failed|tests passed|\*\*\*" | tail -12
