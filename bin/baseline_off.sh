#!/bin/sh
# runs the repository's 120-test baseline with the verification guard OFF (plain upstream build)
set -e
B=$(mktemp -d /var/tmp/yaep-baseline.XXXXXX)
trap 'rm -rf "$B"' EXIT
cmake -G Ninja -S /repo -B "$B" -DCMAKE_BUILD_TYPE=RelWithDebInfo >/dev/null
cmake --build "$B" >/dev/null
ctest --test-dir "$B" -j8 --timeout 900 -R '^yaep(\+\+)?-test' 2>&1 | tail -5
