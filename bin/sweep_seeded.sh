#!/bin/sh
# sweep_seeded.sh [id...]: runs every seeded change (default: all) against its home check in a scratch worktree
# (bin/run_seeded_wt.sh); a change whose home check exits 0 is also run against the checks listed in its
# meta.json "also_checks".  Results: /var/tmp/seeded_sweep/sweep.log (+ per-run logs); evidence files written
# during a sweep describe mutated trees - regenerate them afterwards with bin/check on /repo.
cd "$(dirname "$0")/.."
OUT=/var/tmp/seeded_sweep; mkdir -p $OUT
[ $# -gt 0 ] && ids="$*" || ids=$(ls seeded)
PAR=${SWEEP_PAR:-3}
one() {
  id=$1
  home=$(python3 -c "import json;print(json.load(open('seeded/$id/meta.json'))['breaks_property'])")
  also=$(python3 -c "import json;print(' '.join(json.load(open('seeded/$id/meta.json')).get('also_checks',[])))")
  r=$(SEEDED_LOGDIR=$OUT bin/run_seeded_wt.sh $id $home 2>&1 | grep "^$id ")
  echo "$r"
  case "$r" in *"exit=0"*) [ -n "$also" ] && SEEDED_LOGDIR=$OUT bin/run_seeded_wt.sh $id $also 2>&1 | grep "^$id ";; esac
}
: > $OUT/sweep.log
n=0
for id in $ids; do
  one $id >> $OUT/sweep.log &
  n=$((n+1)); [ $((n % PAR)) -eq 0 ] && wait
done
wait
sort -o $OUT/sweep.log $OUT/sweep.log
cat $OUT/sweep.log | cut -c1-200
