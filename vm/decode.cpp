// IR -> decoded instruction arrays; global initialisation.
#include "sxvm.h"
using namespace llvm;

std::unique_ptr<Module> M;
const DataLayout *DL;
std::vector<std::unique_ptr<DFunc>> funcs;
std::unordered_map<const Function *, DFunc *> fmap;
std::map<u64, DFunc *> fnaddr;
std::unordered_map<const GlobalVariable *, u64> gaddr;

static unsigned tybits(Type *T) {
  if (T->isPointerTy()) return 64;
  if (T->isIntegerTy()) return T->getIntegerBitWidth();
  if (T->isDoubleTy()) return 64;
  if (T->isFloatTy()) return 32;
  if (T->isVoidTy()) return 0;
  if (T->isStructTy() || T->isArrayTy()) { u64 b = DL->getTypeAllocSize(T) * 8; if (b <= 128) return 0; }
  std::string s; raw_string_ostream os(s); T->print(os);
  die("unsupported type " + os.str());
}

static const Function *resolve_fn(const Value *v) {
  v = v->stripPointerCasts();
  if (auto *F = dyn_cast<Function>(v)) return F;
  if (auto *GA = dyn_cast<GlobalAlias>(v)) return dyn_cast<Function>(GA->getAliaseeObject());
  return nullptr;
}

static Val cval(const Constant *C) {
  Type *T = C->getType();
  if (auto *CI = dyn_cast<ConstantInt>(C)) {
    if (CI->getBitWidth() > 64) die("wide constant int");
    return mk(CI->getZExtValue(), CI->getBitWidth());
  }
  if (isa<ConstantPointerNull>(C)) return mk(0, 64);
  if (isa<UndefValue>(C)) { Val v = mk(0, tybits(T) ? tybits(T) : 64); return v; }
  if (auto *GA = dyn_cast<GlobalAlias>(C)) return cval(GA->getAliasee());
  if (auto *F = dyn_cast<Function>(C)) return mk(fmap.at(F)->addr, 64);
  if (auto *G = dyn_cast<GlobalVariable>(C)) return mk(gaddr.at(G), 64);
  if (auto *CF = dyn_cast<ConstantFP>(C)) {
    if (T->isDoubleTy()) { double d = CF->getValueAPF().convertToDouble(); u64 b; memcpy(&b, &d, 8); return mk(b, 64); }
    float f = CF->getValueAPF().convertToFloat(); uint32_t b; memcpy(&b, &f, 4); return mk(b, 32);
  }
  if (auto *CE = dyn_cast<ConstantExpr>(C)) {
    switch (CE->getOpcode()) {
    case Instruction::BitCast: case Instruction::IntToPtr: case Instruction::PtrToInt: case Instruction::AddrSpaceCast: {
      Val v = cval(CE->getOperand(0)); unsigned w = tybits(T); return mk(v.c, w); }
    case Instruction::GetElementPtr: {
      Val b = cval(CE->getOperand(0)); APInt off(64, 0);
      if (!cast<GEPOperator>(CE)->accumulateConstantOffset(*DL, off)) die("constexpr gep");
      return mk(b.c + off.getSExtValue(), 64); }
    case Instruction::Add: return mk(cval(CE->getOperand(0)).c + cval(CE->getOperand(1)).c, tybits(T));
    case Instruction::Sub: return mk(cval(CE->getOperand(0)).c - cval(CE->getOperand(1)).c, tybits(T));
    default: die(std::string("constexpr opcode ") + CE->getOpcodeName());
    }
  }
  std::string s; raw_string_ostream os(s); C->print(os);
  die("constant kind: " + os.str());
}

static void initconst(State &S, u64 a, const Constant *C) {
  Type *T = C->getType();
  if (isa<ConstantAggregateZero>(C) || isa<UndefValue>(C)) return;
  if (auto *CA = dyn_cast<ConstantDataSequential>(C)) {
    unsigned es = DL->getTypeAllocSize(CA->getElementType());
    for (unsigned i = 0; i < CA->getNumElements(); i++) initconst(S, a + i * es, CA->getElementAsConstant(i));
    return;
  }
  if (auto *CA = dyn_cast<ConstantArray>(C)) {
    unsigned es = DL->getTypeAllocSize(CA->getType()->getElementType());
    for (unsigned i = 0; i < CA->getNumOperands(); i++) initconst(S, a + i * es, CA->getOperand(i));
    return;
  }
  if (auto *CS = dyn_cast<ConstantStruct>(C)) {
    auto *SL = DL->getStructLayout(CS->getType());
    for (unsigned i = 0; i < CS->getNumOperands(); i++) initconst(S, a + SL->getElementOffset(i), CS->getOperand(i));
    return;
  }
  Val v = cval(C);
  storev(S, a, v, DL->getTypeStoreSize(T));
}

void init_globals(State &S) {
  for (auto &g : M->globals()) {
    if (g.hasInitializer()) initconst(S, gaddr.at(&g), g.getInitializer());
  }
  for (auto &g : M->globals()) if (g.isConstant()) { auto it = S.mem.find(gaddr.at(&g)); it->second->ro = true; }
}

static Opnd opnd(DenseMap<const Value *, int> &slots, const Value *v) {
  Opnd o;
  if (auto *C = dyn_cast<Constant>(v)) { o.cv = cval(C); return o; }
  auto it = slots.find(v);
  if (it == slots.end()) {
    if (isa<MetadataAsValue>(v) || isa<InlineAsm>(v)) { o.cv = mk(0, 64); return o; }
    die("operand without slot");
  }
  o.reg = it->second; return o;
}

void decode_module(State &S0) {
  DL = &M->getDataLayout();
  u64 fa = 0x1000; int id = 0;
  for (auto &f : *M) {
    auto D = std::make_unique<DFunc>();
    D->f = &f; D->name = f.getName().str(); D->addr = fa; D->id = id++; D->decl = f.isDeclaration();
    D->vararg = f.isVarArg(); D->nargs = f.arg_size();
    if (auto *SP = f.getSubprogram()) D->file = SP->getFilename().str();
    fnaddr[fa] = D.get(); fmap[&f] = D.get(); fa += 16;
    funcs.push_back(std::move(D));
  }
  // global storage lives in the template state; addresses are identical in every forked state
  for (auto &g : M->globals()) {
    u64 sz = DL->getTypeAllocSize(g.getValueType());
    gaddr[&g] = alloc(S0, sz, OK_GLOBAL, g.getName().str().c_str(), true);
  }
  for (auto &DF : funcs) {
    Function &f = *DF->f;
    if (DF->decl) continue;
    DenseMap<const Value *, int> slots; int n = 0;
    for (auto &A : f.args()) slots[&A] = n++;
    for (auto &b : f) for (auto &i : b) if (!i.getType()->isVoidTy()) slots[&i] = n++;
    DF->nregs = n;
    DenseMap<const BasicBlock *, unsigned> bbstart; unsigned pc = 0;
    for (auto &b : f) { bbstart[&b] = pc; for (auto &i : b) { if (isa<PHINode>(i) || isa<DbgInfoIntrinsic>(i)) continue; pc++; } }
    auto mkedge = [&](BasicBlock *from, BasicBlock *to) {
      Edge e; e.pc = bbstart[to];
      for (auto &I : *to) { auto *P = dyn_cast<PHINode>(&I); if (!P) break; e.phis.push_back({slots[P], opnd(slots, P->getIncomingValueForBlock(from))}); }
      return e;
    };
    for (auto &b : f) for (auto &I : b) {
      if (isa<PHINode>(I) || isa<DbgInfoIntrinsic>(I)) continue;
      DInst D; D.I = &I; D.op = I.getOpcode();
      if (!I.getType()->isVoidTy()) { D.dst = slots[&I]; D.w = tybits(I.getType()); }
      if (auto &dl = I.getDebugLoc()) D.line = dl.getLine();
      switch (D.op) {
      case Instruction::Br: {
        auto &B = cast<BranchInst>(I);
        if (B.isConditional()) { D.ops.push_back(opnd(slots, B.getCondition())); D.edges.push_back(mkedge(&b, B.getSuccessor(0))); D.edges.push_back(mkedge(&b, B.getSuccessor(1))); }
        else D.edges.push_back(mkedge(&b, B.getSuccessor(0)));
        break; }
      case Instruction::Switch: {
        auto &W = cast<SwitchInst>(I);
        D.ops.push_back(opnd(slots, W.getCondition()));
        D.edges.push_back(mkedge(&b, W.getDefaultDest()));
        for (auto &cs : W.cases()) { D.casevals.push_back(cs.getCaseValue()->getZExtValue()); D.edges.push_back(mkedge(&b, cs.getCaseSuccessor())); }
        break; }
      case Instruction::GetElementPtr: {
        auto &G = cast<GetElementPtrInst>(I);
        D.ops.push_back(opnd(slots, G.getPointerOperand()));
        for (auto GTI = gep_type_begin(G), E = gep_type_end(G); GTI != E; ++GTI) {
          Value *idx = GTI.getOperand();
          if (StructType *ST = GTI.getStructTypeOrNull()) D.gepconst += DL->getStructLayout(ST)->getElementOffset(cast<ConstantInt>(idx)->getZExtValue());
          else {
            u64 es = DL->getTypeAllocSize(GTI.getIndexedType());
            if (auto *CI = dyn_cast<ConstantInt>(idx)) D.gepconst += (u64)CI->getSExtValue() * es;
            else { D.ops.push_back(opnd(slots, idx)); D.gepterms.push_back({(unsigned)D.ops.size() - 1, es}); }
          }
        }
        break; }
      case Instruction::Alloca: {
        auto &A = cast<AllocaInst>(I);
        D.bytes = DL->getTypeAllocSize(A.getAllocatedType());
        if (A.isArrayAllocation()) D.ops.push_back(opnd(slots, A.getArraySize()));
        break; }
      case Instruction::Load: D.ops.push_back(opnd(slots, I.getOperand(0))); D.bytes = DL->getTypeStoreSize(I.getType()); break;
      case Instruction::Store: {
        D.ops.push_back(opnd(slots, I.getOperand(0))); D.ops.push_back(opnd(slots, I.getOperand(1)));
        Type *VT = I.getOperand(0)->getType(); D.bytes = DL->getTypeStoreSize(VT); D.w = tybits(VT); break; }
      case Instruction::ICmp: D.pred = cast<ICmpInst>(I).getPredicate(); for (auto &u : I.operands()) D.ops.push_back(opnd(slots, u.get())); break;
      case Instruction::FCmp: D.pred = cast<FCmpInst>(I).getPredicate(); for (auto &u : I.operands()) D.ops.push_back(opnd(slots, u.get())); break;
      case Instruction::Call: {
        auto &CI = cast<CallBase>(I);
        for (auto &u : CI.args()) D.ops.push_back(opnd(slots, u.get()));
        const Function *cal = CI.getCalledFunction(); if (!cal) cal = resolve_fn(CI.getCalledOperand());
        if (cal) { DFunc *c = fmap.at(cal); if (c->decl || c->name.rfind("sx_", 0) == 0) D.extname = c->name; else D.callee = c; }
        else D.ops.push_back(opnd(slots, CI.getCalledOperand()));   // last operand = function pointer
        break; }
      case Instruction::ExtractValue: case Instruction::InsertValue:
        die("aggregate SSA values not supported (" + DF->name + ")");
      default:
        for (auto &u : I.operands()) D.ops.push_back(opnd(slots, u.get()));
        if (auto *OB = dyn_cast<OverflowingBinaryOperator>(&I)) { D.nsw = OB->hasNoSignedWrap(); D.nuw = OB->hasNoUnsignedWrap(); }
      }
      DF->code.push_back(std::move(D));
    }
  }
}
