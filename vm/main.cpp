// sxvm driver: exploration loop and JSON report
#include "sxvm.h"
#include <random>
using namespace llvm;

std::map<std::string, u64> label_hits, label_proved;
u64 ctype_ptr_addr = 0, stderr_val = 0;

struct VRec { std::string kind, label, loc, stack; int path; std::vector<std::pair<std::string, std::string>> inputs; std::vector<std::string> obs; };
struct PRec { int id; std::string end; std::vector<std::pair<std::string, std::string>> inputs; std::vector<std::string> obs; u64 steps; unsigned forks; };
static std::vector<VRec> violations; static std::map<std::string, u64> sigcount;
static std::vector<PRec> samples; static u64 ndone = 0;
static unsigned opt_samples = 32, opt_persig = 3, opt_maxviol = 400;
static std::mt19937_64 rng;

static std::string jesc(const std::string &s) {
  std::string o; for (unsigned char c : s) { if (c == '"' || c == '\\') { o.push_back('\\'); o.push_back(c); } else if (c < 32 || c > 126) { char b[8]; snprintf(b, sizeof b, "\\u%04x", c); o += b; } else o.push_back(c); } return o;
}
static void eval_inputs(State &S, z3::model *m, std::vector<std::pair<std::string, std::string>> &out) {
  for (auto &in : S.inputs) {
    std::string v = "0";
    if (m) { z3::expr r = m->eval(in.var, true); if (r.is_numeral()) v = std::to_string((long long)sextw(r.get_numeral_uint64(), in.w)); }
    out.push_back({in.name, v});
  }
}
static void eval_obs(State &S, z3::model *m, std::vector<std::string> &out) {
  for (auto &o : S.obs) {
    if (o.tag.find('=') != std::string::npos && !o.v.sym() && o.v.c == 0 && o.v.w == 64 && o.tag.back() != '=') { out.push_back(o.tag); continue; }
    std::string v;
    if (!o.v.sym()) v = std::to_string((long long)sextw(o.v.c, o.v.w));
    else if (m) { z3::expr r = m->eval(ex(o.v), true); v = r.is_numeral() ? std::to_string((long long)sextw(r.get_numeral_uint64(), o.v.w)) : "?"; }
    else v = "?";
    out.push_back(o.tag + "=" + v);
  }
}
static std::string stackstr(State &S) {
  std::string s; int k = 0;
  for (size_t i = S.stk.size(); i-- > 0 && k < 8; k++) { Frame &F = S.stk[i]; int line = F.pc < F.f->code.size() ? F.f->code[F.pc].line : 0; if (!s.empty()) s += " < "; s += F.f->name + ":" + std::to_string(line); }
  return s;
}
void record_violation(State &S, const std::string &kind, const std::string &label, const z3::expr *cond) {
  std::string loc = srcloc(S);
  std::string sig = kind + "|" + (kind == "ASSERT" ? label : loc);
  u64 k = ++sigcount[sig];
  if (k > opt_persig || violations.size() >= opt_maxviol) return;
  VRec v; v.kind = kind; v.label = label; v.loc = loc; v.path = S.id; v.stack = stackstr(S);
  z3::model m(Z); bool have = false;
  try { have = solve(S, cond, &m); } catch (PathEnd &) {}
  if (getenv("SXVM_DEBUG")) { fprintf(stderr, "--- violation %s %s: path condition\n", kind.c_str(), label.c_str()); for (auto &c : S.pc) fprintf(stderr, "  %s\n", c.to_string().c_str()); if (cond) fprintf(stderr, "  cond: %s\n", cond->to_string().c_str()); fprintf(stderr, "  have=%d model: %s\n", (int)have, have ? m.to_string().c_str() : "-"); }
  eval_inputs(S, have ? &m : nullptr, v.inputs); eval_obs(S, have ? &m : nullptr, v.obs);
  violations.push_back(std::move(v));
}
static void record_done(State &S, const std::string &end) {
  ndone++;
  PRec p; p.id = S.id; p.end = end; p.steps = S.steps; p.forks = S.forks;
  size_t slot;
  if (samples.size() < opt_samples) { samples.emplace_back(); slot = samples.size() - 1; }
  else { u64 r = rng() % ndone; if (r >= opt_samples) return; slot = r; }
  bool have = getmodel(S);
  eval_inputs(S, have ? S.mdl.get() : nullptr, p.inputs); eval_obs(S, have ? S.mdl.get() : nullptr, p.obs);
  samples[slot] = std::move(p);
}
static void pairs_json(FILE *f, const std::vector<std::pair<std::string, std::string>> &v) {
  fprintf(f, "["); for (size_t i = 0; i < v.size(); i++) fprintf(f, "%s[\"%s\",%s]", i ? "," : "", jesc(v[i].first).c_str(), v[i].second.c_str()); fprintf(f, "]");
}
static void strs_json(FILE *f, const std::vector<std::string> &v) {
  fprintf(f, "["); for (size_t i = 0; i < v.size(); i++) fprintf(f, "%s\"%s\"", i ? "," : "", jesc(v[i]).c_str()); fprintf(f, "]");
}

int main(int argc, char **argv) {
  std::string irfile, entry = "harness", outfile; u64 maxpaths = ~0ULL; u64 seed = 1; double maxtime = 1e18;
  for (int i = 1; i < argc; i++) {
    std::string a = argv[i];
    auto next = [&]() { if (i + 1 >= argc) die("missing value for " + a); return std::string(argv[++i]); };
    if (a == "-P") { std::string kv = next(); size_t e = kv.find('='); if (e == std::string::npos) die("-P name=value"); params[kv.substr(0, e)] = atoll(kv.c_str() + e + 1); }
    else if (a == "--entry") entry = next();
    else if (a == "--out") outfile = next();
    else if (a == "--max-paths") maxpaths = strtoull(next().c_str(), 0, 10);
    else if (a == "--max-steps") opt_maxsteps = strtoull(next().c_str(), 0, 10);
    else if (a == "--max-time") maxtime = atof(next().c_str());
    else if (a == "--samples") opt_samples = atoi(next().c_str());
    else if (a == "--per-sig") opt_persig = atoi(next().c_str());
    else if (a == "--seed") seed = strtoull(next().c_str(), 0, 10);
    else if (a == "--no-overflow") opt_overflow = false;
    else if (a == "--no-uninit") opt_uninit = false;
    else if (a == "--no-pin") { extern bool opt_pin; opt_pin = false; }
    else if (a == "--dump-dir") opt_dumpdir = next();
    else if (a == "--dump-every") opt_dump_every = atoi(next().c_str());
    else if (a[0] == '-') die("unknown option " + a);
    else irfile = a;
  }
  rng.seed(seed);
  LLVMContext ctx; SMDiagnostic err;
  M = parseIRFile(irfile, err, ctx);
  if (!M) { err.print("sxvm", errs()); return 3; }
  State S0;
  decode_module(S0);
  init_globals(S0);
  { // C-locale ctype table for __ctype_b_loc
    u64 tab = alloc(S0, 384 * 2, OK_GLOBAL, "ctype table", true); const unsigned short *t = *__ctype_b_loc();
    for (int i = -128; i < 256; i++) storev(S0, tab + (i + 128) * 2, mk(t[i], 16), 2);
    ctype_ptr_addr = alloc(S0, 8, OK_GLOBAL, "ctype pointer", true); storev(S0, ctype_ptr_addr, mk(tab + 256, 64), 8);
  }
  for (auto &g : M->globals()) if (!g.hasInitializer() && (g.getName() == "stderr" || g.getName() == "stdout" || g.getName() == "stdin")) {
    u64 fobj = alloc(S0, 8, OK_GLOBAL, "FILE", true); storev(S0, gaddr.at(&g), mk(fobj, 64), 8);
  }
  Function *E = M->getFunction(entry); if (!E) die("no entry function " + entry);
  enter(S0, fmap.at(E), {}, -1);
  work.push_back(std::move(S0));
  auto t0 = std::chrono::steady_clock::now();
  std::map<std::string, u64> ends; u64 finished = 0; bool truncated = false;
  while (!work.empty()) {
    if (finished >= maxpaths || std::chrono::duration<double>(std::chrono::steady_clock::now() - t0).count() > maxtime) { truncated = true; break; }
    State S = std::move(work.back()); work.pop_back();
    try {
      for (;;) { step(S); if (S.steps > opt_maxsteps) throw Fault{"STEP-LIMIT", "instruction budget exceeded (possible hang)"}; }
    } catch (PathEnd &pe) {
      finished++; ends[pe.why]++;
      if (pe.why == "done" || pe.why == "ended") { try { record_done(S, pe.why); } catch (PathEnd &) {} }
    } catch (Fault &f) {
      finished++; ends["fault:" + f.kind]++;
      try { record_violation(S, f.kind, f.detail, nullptr); } catch (PathEnd &) {}
    }
  }
  double el = std::chrono::duration<double>(std::chrono::steady_clock::now() - t0).count();
  FILE *f = outfile.empty() ? stdout : fopen(outfile.c_str(), "w");
  if (!f) die("cannot write " + outfile);
  fprintf(f, "{\"entry\":\"%s\",\"params\":{", jesc(entry).c_str());
  { bool first = true; for (auto &p : params) { fprintf(f, "%s\"%s\":%lld", first ? "" : ",", jesc(p.first).c_str(), (long long)p.second); first = false; } }
  fprintf(f, "},\"stats\":{\"paths\":%llu,\"completed\":%llu,\"forks\":%llu,\"insts\":%llu,\"queries\":%llu,\"solver_s\":%.3f,\"fallbacks\":%llu,\"unknown\":%llu,\"asserts_proved\":%llu,\"asserts_concrete\":%llu,\"symloads\":%llu,\"cvc5_dumped\":%llu,\"wall_s\":%.3f,\"left\":%zu,\"truncated\":%s},",
          (unsigned long long)finished, (unsigned long long)ndone, (unsigned long long)st.forks, (unsigned long long)st.insts, (unsigned long long)st.queries, st.solver_s,
          (unsigned long long)st.fallbacks, (unsigned long long)st.unknown, (unsigned long long)st.asserts_proved, (unsigned long long)st.asserts_concrete, (unsigned long long)st.symloads, (unsigned long long)st.cvc5_dumped, el, work.size(), truncated ? "true" : "false");
  fprintf(f, "\"ends\":{"); { bool first = true; for (auto &e : ends) { fprintf(f, "%s\"%s\":%llu", first ? "" : ",", jesc(e.first).c_str(), (unsigned long long)e.second); first = false; } } fprintf(f, "},");
  fprintf(f, "\"sigcount\":{"); { bool first = true; for (auto &e : sigcount) { fprintf(f, "%s\"%s\":%llu", first ? "" : ",", jesc(e.first).c_str(), (unsigned long long)e.second); first = false; } } fprintf(f, "},");
  fprintf(f, "\"violations\":[");
  for (size_t i = 0; i < violations.size(); i++) {
    VRec &v = violations[i];
    fprintf(f, "%s{\"kind\":\"%s\",\"label\":\"%s\",\"loc\":\"%s\",\"stack\":\"%s\",\"path\":%d,\"inputs\":", i ? "," : "", jesc(v.kind).c_str(), jesc(v.label).c_str(), jesc(v.loc).c_str(), jesc(v.stack).c_str(), v.path);
    pairs_json(f, v.inputs); fprintf(f, ",\"obs\":"); strs_json(f, v.obs); fprintf(f, "}");
  }
  fprintf(f, "],\"samples\":[");
  for (size_t i = 0; i < samples.size(); i++) {
    PRec &p = samples[i];
    fprintf(f, "%s{\"id\":%d,\"end\":\"%s\",\"steps\":%llu,\"forks\":%u,\"inputs\":", i ? "," : "", p.id, p.end.c_str(), (unsigned long long)p.steps, p.forks);
    pairs_json(f, p.inputs); fprintf(f, ",\"obs\":"); strs_json(f, p.obs); fprintf(f, "}");
  }
  fprintf(f, "],\"labels\":{");
  { bool first = true; for (auto &l : label_hits) { fprintf(f, "%s\"%s\":[%llu,%llu]", first ? "" : ",", jesc(l.first).c_str(), (unsigned long long)l.second, (unsigned long long)label_proved[l.first]); first = false; } }
  fprintf(f, "},\"functions\":[");
  { bool first = true; for (auto &d : funcs) if (d->calls && d->file.find("/verif/") == std::string::npos) { fprintf(f, "%s\"%s\"", first ? "" : ",", jesc(d->name).c_str()); first = false; } }
  fprintf(f, "]}\n");
  if (f != stdout) fclose(f); else fflush(stdout);
  fprintf(stderr, "sxvm: paths=%llu done=%llu forks=%llu insts=%llu queries=%llu solver_s=%.2f wall_s=%.2f violations=%zu unknown=%llu%s\n",
          (unsigned long long)finished, (unsigned long long)ndone, (unsigned long long)st.forks, (unsigned long long)st.insts, (unsigned long long)st.queries, st.solver_s, el, violations.size(), (unsigned long long)st.unknown, truncated ? " TRUNCATED" : "");
  fflush(stderr);
  _exit(st.unknown ? 2 : (violations.empty() ? 0 : 1));
}
