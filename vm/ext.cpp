// models of external functions (libc subset, C++ runtime subset) and the harness vocabulary (sx_*)
#include "sxvm.h"
using namespace llvm;

extern std::map<std::string, u64> label_hits, label_proved;
extern u64 ctype_ptr_addr, stderr_val;

static void check_args_defined(const std::vector<Val> &a, const std::string &n) {
  if (!opt_uninit) return;
  for (auto &v : a) if (v.undef) throw Fault{"UNINIT-USE", "argument of " + n};
}
typedef std::vector<Val> SBytes;
static void writestr(State &S, u64 dst, const SBytes &s) {
  for (size_t i = 0; i < s.size(); i++) storev(S, dst + i, s[i], 1);
  storev(S, dst + s.size(), mk(0, 8), 1);
}
static void putstr(SBytes &o, const std::string &s) { for (unsigned char c : s) o.push_back(mk(c, 8)); }
// decimal digits of a symbolic integer: fork on sign and number of digits (at most 20 classes), digits stay symbolic
static void put_symbolic_decimal(State &S, SBytes &out, const Val &v0, bool is_long, bool is_unsigned) {
  unsigned w = is_long ? 64 : 32;
  Val v = v0.w > w ? truncv(v0, w) : (v0.w < w ? sextv(v0, w) : v0);
  bool neg = false;
  if (!is_unsigned) neg = branch(S, icmp(CmpInst::ICMP_SLT, v, mk(0, w)));
  Val mag = neg ? binop(S, Instruction::Sub, mk(0, w), v, w, nullptr) : v;   // INT_MIN maps to itself, read as unsigned below: correct magnitude
  unsigned nd = 1; u64 p = 10;
  while (nd < (w == 32 ? 10u : 20u)) {
    if (!branch(S, icmp(CmpInst::ICMP_UGE, mag, mk(p, w)))) break;
    nd++; if (p > ~0ULL / 10) break; p *= 10;
  }
  if (neg) out.push_back(mk('-', 8));
  // the digits themselves are over-approximated: fresh bytes in '0'..'9' (leading digit non-zero when there are several)
  static u64 fresh = 0;
  for (unsigned i = 0; i < nd; i++) {
    z3::expr d = Z.bv_const(("digit!" + std::to_string(fresh++)).c_str(), 8);
    addpc(S, z3::uge(d, Z.bv_val((i == 0 && nd > 1) ? '1' : '0', 8)) && z3::ule(d, Z.bv_val('9', 8)));
    out.push_back(mks(d, 8));
  }
}
// printf-style formatting; args are 64-bit slots
static SBytes fmt(State &S, const std::string &f, const std::vector<Val> &a, size_t ai) {
  SBytes out;
  for (size_t i = 0; i < f.size(); i++) {
    if (f[i] != '%') { out.push_back(mk((unsigned char)f[i], 8)); continue; }
    size_t j = i + 1; std::string spec = "%";
    while (j < f.size() && strchr("-+ #0123456789.lh", f[j])) spec.push_back(f[j++]);
    if (j >= f.size()) break;
    char c = f[j]; spec.push_back(c); char buf[600];
    if (c == '%') out.push_back(mk('%', 8));
    else if (c == 's') {
      if (ai >= a.size()) die("fmt: missing %s arg");
      u64 p = concfork(S, a[ai++], "%s pointer");
      if (spec == "%s") { for (u64 k = 0;; k++) { Val b = loadv(S, p + k, 1); if (opt_uninit && b.undef) throw Fault{"UNINIT-USE", "%s argument reads uninitialised byte"}; if (branch(S, icmp(CmpInst::ICMP_EQ, b, mk(0, 8)))) break; out.push_back(b); if (k > (1u << 20)) throw Fault{"STEP-LIMIT", "unterminated %s argument"}; } }
      else { std::string s = cstr(S, p); snprintf(buf, sizeof buf, spec.c_str(), s.size() < 500 ? s.c_str() : ""); putstr(out, s.size() < 500 ? std::string(buf) : s); }
    }
    else if (c == 'd' || c == 'i' || c == 'c' || c == 'u' || c == 'x' || c == 'X' || c == 'o') {
      if (ai >= a.size()) die("fmt: missing int arg");
      Val av = applypins(S, a[ai++]);
      bool l = spec.find('l') != std::string::npos;
      if (av.sym() && (spec == "%d" || spec == "%ld" || spec == "%i" || spec == "%u" || spec == "%lu")) { put_symbolic_decimal(S, out, av, l, c == 'u'); }
      else if (av.sym() && spec == "%c") out.push_back(truncv(av, 8));
      else {
        u64 cv = concfork(S, av, "formatted integer");
        if (l) snprintf(buf, sizeof buf, spec.c_str(), (long)cv); else snprintf(buf, sizeof buf, spec.c_str(), (int)cv);
        if (c == 'c' && spec == "%c") out.push_back(mk(cv & 0xff, 8)); else putstr(out, buf);
      }
    } else if (c == 'g' || c == 'f' || c == 'e') { if (ai >= a.size()) die("fmt: missing fp arg"); double d; u64 b = a[ai++].c; memcpy(&d, &b, 8); snprintf(buf, sizeof buf, spec.c_str(), d); putstr(out, buf); }
    else if (c == 'p') { u64 cv = concfork(S, a[ai++], "%p"); snprintf(buf, sizeof buf, "%p", (void *)cv); putstr(out, buf); }
    else die("fmt: unsupported conversion " + spec);
    i = j;
  }
  return out;
}
static std::vector<Val> va_args_of(State &S, u64 va, const std::string &f) {
  // our va_list keeps every argument as a 64-bit slot in overflow_arg_area
  u64 area = loadv(S, va + 8, 8).c; std::vector<Val> args; size_t nspec = 0;
  for (size_t i = 0; i + 1 < f.size(); i++) if (f[i] == '%') { if (f[i + 1] == '%') i++; else nspec++; }
  for (size_t i = 0; i < nspec; i++) args.push_back(loadv(S, area + 8 * i, 8));
  return args;
}
static bool alloc_fails(State &S) {
  // symbolic index of the failing allocation (sx_fail_alloc_at); evaluated before any side effect
  bool fail = false;
  if (S.failarmed) {
    Val c = icmp(CmpInst::ICMP_EQ, S.failk, mk(S.alloccnt, S.failk.w));
    fail = branch(S, c);
  }
  S.alloccnt++;
  if (fail) S.failarmed = false;
  return fail;
}
static Input &newinput(State &S, const std::string &base, unsigned w) {
  std::string nm = base + "#" + std::to_string(S.inputs.size());
  S.inputs.push_back(Input{nm, Z.bv_const(nm.c_str(), w), w});
  return S.inputs.back();
}

bool extcall(State &S, DInst &D, const std::string &n, std::vector<Val> &a) {
  Frame &F = S.stk.back();
  unsigned rw = D.w;
  auto ret = [&](Val v) { if (D.dst >= 0) { if (v.w != rw) v = v.w > rw ? truncv(v, rw) : zextv(v, rw); S.regs[S.stk.back().regbase + D.dst] = v; } };
  (void)F;
  // ---- llvm intrinsics
  if (n.rfind("llvm.", 0) == 0) {
    if (n.rfind("llvm.memcpy", 0) == 0 || n.rfind("llvm.memmove", 0) == 0) {
      u64 d = concfork(S, a[0], "memcpy dst"), s = concfork(S, a[1], "memcpy src"), k = concfork(S, a[2], "memcpy n");
      std::vector<Val> tmp; for (u64 i = 0; i < k; i++) tmp.push_back(loadv(S, s + i, 1));
      for (u64 i = 0; i < k; i++) storev(S, d + i, tmp[i], 1);
      return false;
    }
    if (n.rfind("llvm.memset", 0) == 0) { u64 d = concfork(S, a[0], "memset dst"), k = concfork(S, a[2], "memset n"); Val b = truncv(a[1], 8); for (u64 i = 0; i < k; i++) storev(S, d + i, b, 1); return false; }
    if (n == "llvm.va_start") {
      u64 va = concfork(S, a[0], "va_start"); Frame &FF = S.stk.back();
      u64 area = alloc(S, 8 * FF.varargs.size() + 8, OK_STACK, "va_area", true); FF.allocas.push_back(area);
      for (size_t i = 0; i < FF.varargs.size(); i++) { Val v = FF.varargs[i]; if (v.w < 64) v = sextv(v, 64); storev(S, area + 8 * i, v, 8); }
      storev(S, va, mk(48, 32), 4); storev(S, va + 4, mk(304, 32), 4); storev(S, va + 8, mk(area, 64), 8); storev(S, va + 16, mk(0, 64), 8);
      return false;
    }
    if (n == "llvm.va_copy") { u64 d = concfork(S, a[0], "va_copy"), s = concfork(S, a[1], "va_copy"); for (int i = 0; i < 24; i++) storev(S, d + i, loadv(S, s + i, 1), 1); return false; }
    if (n == "llvm.va_end" || n.rfind("llvm.lifetime", 0) == 0 || n.rfind("llvm.dbg", 0) == 0 || n.rfind("llvm.experimental.noalias", 0) == 0 || n.rfind("llvm.assume", 0) == 0) return false;
    if (n == "llvm.stacksave") { ret(mk(0, 64)); return false; }
    if (n == "llvm.stackrestore") return false;
    if (n == "llvm.trap") throw Fault{"ABORT", "llvm.trap"};
    if (n.rfind("llvm.expect", 0) == 0) { ret(a[0]); return false; }
    if (n.rfind("llvm.smax", 0) == 0 || n.rfind("llvm.smin", 0) == 0 || n.rfind("llvm.umax", 0) == 0 || n.rfind("llvm.umin", 0) == 0) {
      unsigned p = n[5] == 's' ? (n[7] == 'a' ? CmpInst::ICMP_SGT : CmpInst::ICMP_SLT) : (n[7] == 'a' ? CmpInst::ICMP_UGT : CmpInst::ICMP_ULT);
      Val c = icmp(p, a[0], a[1]);
      if (!c.sym()) ret(c.c ? a[0] : a[1]); else ret(mks(z3::ite(ex(c) == Z.bv_val(1, 1), ex(a[0]), ex(a[1])), a[0].w));
      return false;
    }
    if (n.rfind("llvm.abs", 0) == 0) { Val c = icmp(CmpInst::ICMP_SLT, a[0], mk(0, a[0].w)); Val neg = binop(S, Instruction::Sub, mk(0, a[0].w), a[0], a[0].w, nullptr); if (!c.sym()) ret(c.c ? neg : a[0]); else ret(mks(z3::ite(ex(c) == Z.bv_val(1, 1), ex(neg), ex(a[0])), a[0].w)); return false; }
    die("unmodelled intrinsic " + n);
  }
  // ---- allocation
  if (n == "malloc" || n == "_Znwm" || n == "_Znam") {
    check_args_defined(a, n);
    u64 sz = concfork(S, a[0], "malloc size");
    if (alloc_fails(S)) { if (n != "malloc") throw Fault{"ABORT", "operator new failed (std::bad_alloc with -fno-exceptions)"}; ret(mk(0, 64)); return false; }
    if (sz > (1ULL << 31)) { ret(mk(0, 64)); return false; }
    ret(mk(alloc(S, sz, n == "malloc" ? OK_MALLOC : n == "_Znwm" ? OK_NEW : OK_NEWARR, "heap block", false), 64)); return false;
  }
  if (n == "calloc") {
    check_args_defined(a, n);
    u64 x = concfork(S, a[0], "calloc n"), y = concfork(S, a[1], "calloc size");
    if (alloc_fails(S)) { ret(mk(0, 64)); return false; }
    if (x && y > (1ULL << 31) / x) { ret(mk(0, 64)); return false; }
    ret(mk(alloc(S, x * y, OK_MALLOC, "heap block", true), 64)); return false;
  }
  if (n == "free") { check_args_defined(a, n); free_obj(S, concfork(S, a[0], "free"), OK_MALLOC, "free"); return false; }
  if (n == "_ZdlPv" || n == "_ZdlPvm") { free_obj(S, concfork(S, a[0], "delete"), OK_NEW, "operator delete"); return false; }
  if (n == "_ZdaPv") { free_obj(S, concfork(S, a[0], "delete[]"), OK_NEWARR, "operator delete[]"); return false; }
  if (n == "realloc") {
    check_args_defined(a, n);
    u64 p = concfork(S, a[0], "realloc ptr"), sz = concfork(S, a[1], "realloc size");
    if (alloc_fails(S)) { ret(mk(0, 64)); return false; }
    if (sz > (1ULL << 31)) { ret(mk(0, 64)); return false; }
    if (p) {
      auto it = S.mem.find(p);
      if (it == S.mem.end() || it->second->kind != OK_MALLOC) throw Fault{"BAD-FREE", "realloc of a pointer that is not a malloc block"};
      if (it->second->freed) throw Fault{"USE-AFTER-FREE", "realloc of a freed block"};
    }
    u64 na = alloc(S, sz, OK_MALLOC, "heap block", false);   // always moves
    if (p) {
      u64 osz = S.mem.find(p)->second->size; u64 k = std::min(osz, sz);
      for (u64 i = 0; i < k; i++) storev(S, na + i, loadv(S, p + i, 1), 1);
      free_obj(S, p, OK_MALLOC, "realloc");
    }
    ret(mk(na, 64)); return false;
  }
  // ---- strings / memory
  if (n == "memcpy" || n == "memmove") {
    u64 d = concfork(S, a[0], "memcpy dst"), s = concfork(S, a[1], "memcpy src"), k = concfork(S, a[2], "memcpy n");
    std::vector<Val> tmp; for (u64 i = 0; i < k; i++) tmp.push_back(loadv(S, s + i, 1));
    for (u64 i = 0; i < k; i++) storev(S, d + i, tmp[i], 1);
    ret(mk(d, 64)); return false;
  }
  if (n == "memset") { u64 d = concfork(S, a[0], "memset dst"), k = concfork(S, a[2], "memset n"); Val b = truncv(a[1], 8); for (u64 i = 0; i < k; i++) storev(S, d + i, b, 1); ret(mk(d, 64)); return false; }
  if (n == "memcmp") {
    u64 p = concfork(S, a[0], "memcmp"), q = concfork(S, a[1], "memcmp"), k = concfork(S, a[2], "memcmp n");
    for (u64 i = 0; i < k; i++) { Val x = loadv(S, p + i, 1), y = loadv(S, q + i, 1); if (opt_uninit && (x.undef || y.undef)) throw Fault{"UNINIT-USE", "memcmp reads uninitialised byte"}; u64 xc = concfork(S, x, "memcmp byte"), yc = concfork(S, y, "memcmp byte"); if (xc != yc) { ret(mk((u64)(i64)((int)xc - (int)yc), 32)); return false; } }
    ret(mk(0, 32)); return false;
  }
  if (n == "strlen") {
    u64 p = concfork(S, a[0], "strlen"); u64 k = 0;
    for (;;) { Val v = loadv(S, p + k, 1); if (opt_uninit && v.undef) throw Fault{"UNINIT-USE", "strlen reads uninitialised byte"}; if (branch(S, icmp(CmpInst::ICMP_EQ, v, mk(0, 8)))) break; k++; }
    ret(mk(k, 64)); return false;
  }
  if (n == "strcmp" || n == "strncmp") {
    u64 p = concfork(S, a[0], "strcmp"), q = concfork(S, a[1], "strcmp"); u64 lim = n == "strncmp" ? concfork(S, a[2], "strncmp n") : ~0ULL;
    for (u64 k = 0; k < lim; k++) {
      Val x = loadv(S, p + k, 1), y = loadv(S, q + k, 1);
      if (opt_uninit && (x.undef || y.undef)) throw Fault{"UNINIT-USE", "strcmp reads uninitialised byte"};
      u64 xc = concfork(S, x, "strcmp byte"), yc = concfork(S, y, "strcmp byte");
      if (xc != yc) { ret(mk((u64)(i64)((int)xc - (int)yc), 32)); return false; }
      if (!xc) break;
    }
    ret(mk(0, 32)); return false;
  }
  if (n == "strcpy") {
    u64 d = concfork(S, a[0], "strcpy dst"), s = concfork(S, a[1], "strcpy src");
    for (u64 k = 0;; k++) { Val x = loadv(S, s + k, 1); storev(S, d + k, x, 1); if (branch(S, icmp(CmpInst::ICMP_EQ, x, mk(0, 8)))) break; }
    ret(mk(d, 64)); return false;
  }
  if (n == "strncpy") {
    u64 d = concfork(S, a[0], "strncpy dst"), s = concfork(S, a[1], "strncpy src"), nn = concfork(S, a[2], "strncpy n"); bool z = false;
    for (u64 k = 0; k < nn; k++) { Val x = z ? mk(0, 8) : loadv(S, s + k, 1); storev(S, d + k, x, 1); if (!z && concfork(S, x, "strncpy byte") == 0) z = true; }
    ret(mk(d, 64)); return false;
  }
  if (n == "strchr") { u64 p = concfork(S, a[0], "strchr"); u64 ch = concfork(S, a[1], "strchr c") & 0xff; for (u64 k = 0;; k++) { u64 x = concfork(S, loadv(S, p + k, 1), "strchr byte"); if (x == ch) { ret(mk(p + k, 64)); return false; } if (!x) break; } ret(mk(0, 64)); return false; }
  if (n == "atoi") { std::string s = cstr(S, concfork(S, a[0], "atoi")); ret(mk((u64)(i64)atoi(s.c_str()), 32)); return false; }
  // ---- stdio
  if (n == "fprintf" || n == "fputs" || n == "fputc" || n == "putc" || n == "printf" || n == "fflush" || n == "vfprintf" || n == "fwrite" || n == "puts" || n == "putchar" || n == "perror") { ret(mk(0, 32)); return false; }
  if (n == "sprintf") { SBytes s = fmt(S, cstr(S, concfork(S, a[1], "format")), a, 2); writestr(S, concfork(S, a[0], "sprintf dst"), s); ret(mk(s.size(), 32)); return false; }
  if (n == "snprintf") { SBytes s = fmt(S, cstr(S, concfork(S, a[2], "format")), a, 3); u64 lim = concfork(S, a[1], "snprintf n"); if (lim) writestr(S, concfork(S, a[0], "snprintf dst"), SBytes(s.begin(), s.begin() + std::min<size_t>(s.size(), lim - 1))); ret(mk(s.size(), 32)); return false; }
  if (n == "vsprintf") { std::string f = cstr(S, concfork(S, a[1], "format")); std::vector<Val> args = va_args_of(S, concfork(S, a[2], "va_list"), f); SBytes s = fmt(S, f, args, 0); writestr(S, concfork(S, a[0], "vsprintf dst"), s); ret(mk(s.size(), 32)); return false; }
  if (n == "vsnprintf") { std::string f = cstr(S, concfork(S, a[2], "format")); std::vector<Val> args = va_args_of(S, concfork(S, a[3], "va_list"), f); SBytes s = fmt(S, f, args, 0); u64 lim = concfork(S, a[1], "vsnprintf n"); if (lim) writestr(S, concfork(S, a[0], "vsnprintf dst"), SBytes(s.begin(), s.begin() + std::min<size_t>(s.size(), lim - 1))); ret(mk(s.size(), 32)); return false; }
  // ---- control
  if (n == "_setjmp" || n == "setjmp" || n == "__sigsetjmp") { u64 jb = concfork(S, a[0], "setjmp"); S.jbs[jb] = JB{S.stk.size(), S.stk.back().pc, D.dst}; ret(mk(0, 32)); return false; }
  if (n == "longjmp" || n == "_longjmp" || n == "siglongjmp") { do_longjmp(S, concfork(S, a[0], "longjmp"), a[1]); return true; }
  if (n == "abort") throw Fault{"ABORT", "abort() called"};
  if (n == "exit" || n == "_exit") throw Fault{"EXIT", "exit(" + std::to_string((int)concfork(S, a[0], "exit")) + ") called"};
  if (n == "__assert_fail") throw Fault{"ASSERT-FAIL", cstr(S, a[0].c)};
  if (n == "__ctype_b_loc") { ret(mk(ctype_ptr_addr, 64)); return false; }
  if (n == "__cxa_pure_virtual") throw Fault{"ABORT", "pure virtual call"};
  if (n == "__cxa_atexit") { ret(mk(0, 32)); return false; }
  // ---- harness vocabulary
  if (n == "sx_int") { Input &in = newinput(S, cstr(S, a[0].c), 32); ret(mks(in.var, 32)); return false; }
  if (n == "sx_long") { Input &in = newinput(S, cstr(S, a[0].c), 64); ret(mks(in.var, 64)); return false; }
  if (n == "sx_range") {
    Input &in = newinput(S, cstr(S, a[0].c), 32); z3::expr v = in.var;
    i64 lo = sextw(concfork(S, a[1], "range lo"), 32), hi = sextw(concfork(S, a[2], "range hi"), 32);
    if (lo > hi) throw PathEnd{"assume-false", ""};
    if (lo == hi) { S.pinned.insert(S.inputs.size() - 1); S.pins.push_back({v, Z.bv_val((int)lo, 32)}); addpc(S, v == Z.bv_val((int)lo, 32)); ret(mk((u64)lo, 32)); return false; }
    addpc(S, v >= Z.bv_val((int)lo, 32) && v <= Z.bv_val((int)hi, 32));
    S.lastrange_id = v.id(); S.lastrange_lo = lo; S.lastrange_hi = hi; S.lastrange_input = S.inputs.size() - 1;
    ret(mks(v, 32)); return false;
  }
  if (n == "sx_bytes") {
    u64 p = concfork(S, a[0], "sx_bytes"), k = concfork(S, a[1], "sx_bytes n"); std::string nm = cstr(S, a[2].c);
    for (u64 i = 0; i < k; i++) { Input &in = newinput(S, nm, 8); storev(S, p + i, mks(in.var, 8), 1); }
    return false;
  }
  if (n == "sx_concretize" || n == "sx_concretize_long") {
    check_args_defined(a, n);
    if (a[0].sym() && a[0].e->id() == S.lastrange_id && S.lastrange_hi - S.lastrange_lo < 4096 && !S.pinned.count(S.lastrange_input)) {
      // sx_choice: the variable was created by the immediately preceding sx_range and is constrained by nothing else:
      // every value of the range is feasible, enumerate without solver queries
      z3::expr var = *a[0].e; i64 lo = S.lastrange_lo, hi = S.lastrange_hi; size_t idx = S.lastrange_input;
      S.lastrange_id = 0; S.nocache();
      for (i64 v = hi; v > lo; v--) {
        st.forks++;
        State o = S; o.id = ++st.paths; o.forks = S.forks + 1; o.mdl.reset();
        z3::expr val = Z.bv_val((int)v, 32);
        o.pc.push_back(var == val); o.pinned.insert(idx); o.pins.push_back({var, val});
        work.push_back(std::move(o));
      }
      z3::expr val = Z.bv_val((int)lo, 32);
      S.pc.push_back(var == val); S.pinned.insert(idx); S.pins.push_back({var, val}); S.mdl.reset(); S.forks++;
      ret(mk((u64)lo, 32)); return false;
    }
    ret(mk(concfork(S, a[0], "sx_concretize"), a[0].w)); return false;
  }
  if (n == "sx_assume") { check_args_defined(a, n); if (!branch(S, icmp(CmpInst::ICMP_NE, a[0], mk(0, a[0].w)))) throw PathEnd{"assume-false", ""}; return false; }
  if (n == "sx_end_path") throw PathEnd{"ended", ""};
  if (n == "sx_assert") {
    std::string label = cstr(S, a[1].c); label_hits[label]++;
    if (opt_uninit && a[0].undef) { record_violation(S, "UNINIT-USE", "asserted condition depends on uninitialised memory: " + label, nullptr); return false; }
    Val c = applypins(S, icmp(CmpInst::ICMP_EQ, a[0], mk(0, a[0].w)));
    if (!c.sym()) { if (c.c) record_violation(S, "ASSERT", label, nullptr); else { st.asserts_concrete++; label_proved[label]++; } }
    else {
      z3::expr bad = ex(c) == Z.bv_val(1, 1);
      if (solve(S, &bad)) { record_violation(S, "ASSERT", label, &bad); z3::expr good = !bad; if (!solve(S, &good)) throw PathEnd{"assert-always-false", label}; addpc(S, good); }
      else { st.asserts_proved++; label_proved[label]++; }
    }
    return false;
  }
  if (n == "sx_reach") { label_hits[cstr(S, a[0].c)]++; return false; }
  if (n == "sx_observe") { S.obs.push_back(Obs{cstr(S, a[0].c), a[1]}); return false; }
  if (n == "sx_observe_str") { Obs o; o.tag = cstr(S, a[0].c) + "=" + cstr(S, concfork(S, a[1], "observe_str")); o.v = mk(0, 64); S.obs.push_back(o); return false; }
  if (n == "sx_param") { std::string nm = cstr(S, a[0].c); auto it = params.find(nm); ret(mk(it == params.end() ? a[1].c : (u64)it->second, 64)); return false; }
  if (n == "sx_ite") { Val c = icmp(CmpInst::ICMP_NE, a[0], mk(0, a[0].w)); if (!c.sym()) ret(c.c ? a[1] : a[2]); else { Val r = mks(z3::ite(ex(c) == Z.bv_val(1, 1), ex(a[1]), ex(a[2])), a[1].w); r.undef = umask(a[0].undef || a[1].undef || a[2].undef, a[1].w); ret(r); } return false; }
  if (n == "sx_fail_alloc_at") { S.failk = a[0]; S.failarmed = !(!a[0].sym() && sextw(a[0].c, a[0].w) < 0); S.alloccnt = 0; return false; }
  if (n == "sx_alloc_count") { ret(mk(S.alloccnt, 64)); return false; }
  if (n == "sx_live_heap_blocks") { ret(mk(S.live_heap, 64)); return false; }
  if (n == "sx_mem_valid") {
    u64 p = concfork(S, a[0], "sx_mem_valid"), k = concfork(S, a[1], "sx_mem_valid n");
    Obj *o = findobj(S, p); ret(mk(o && !o->freed && p + k <= o->base + o->size, 32)); return false;
  }
  if (n == "sx_garbage") { u64 p = concfork(S, a[0], "sx_garbage"), k = concfork(S, a[1], "sx_garbage n"); for (u64 i = 0; i < k; i++) { Input &in = newinput(S, "garbage", 8); storev(S, p + i, mks(in.var, 8), 1); } return false; }
  if (n == "sx_is_vm") { ret(mk(1, 32)); return false; }
  if (n == "sx_note") return false;
  die("unmodelled external function " + n);
}
