// sxvm: bounded symbolic execution of LLVM-14 IR with Z3 (see /verif/DESIGN.md section 3).
#pragma once
#include <llvm/IR/LLVMContext.h>
#include <llvm/IR/Module.h>
#include <llvm/IR/Instructions.h>
#include <llvm/IR/IntrinsicInst.h>
#include <llvm/IR/Constants.h>
#include <llvm/IR/DataLayout.h>
#include <llvm/IR/GetElementPtrTypeIterator.h>
#include <llvm/IR/Operator.h>
#include <llvm/IR/GlobalAlias.h>
#include <llvm/IR/DebugInfoMetadata.h>
#include <llvm/IRReader/IRReader.h>
#include <llvm/Support/SourceMgr.h>
#include <llvm/Support/raw_ostream.h>
#include <z3++.h>
#include <map>
#include <set>
#include <unordered_map>
#include <vector>
#include <memory>
#include <string>
#include <cstring>
#include <cstdio>
#include <chrono>
#include <unistd.h>

typedef uint64_t u64;
typedef int64_t i64;
extern z3::context Z;

// ---------------------------------------------------------------- values
struct Val {
  u64 c = 0;                       // concrete value (valid when !e)
  std::shared_ptr<z3::expr> e;     // symbolic bit-vector term of width w
  unsigned w = 64;
  uint8_t undef = 0;               // byte mask: which bytes derive from uninitialised memory
  bool sym() const { return (bool)e; }
};
static inline u64 maskw(unsigned w) { return w >= 64 ? ~0ULL : ((1ULL << w) - 1); }
static inline i64 sextw(u64 x, unsigned w) { return w >= 64 ? (i64)x : ((i64)(x << (64 - w)) >> (64 - w)); }
static inline uint8_t umask(bool any, unsigned w) { return any ? (uint8_t)((1u << ((w + 7) / 8 > 8 ? 8 : (w + 7) / 8)) - 1) : 0; }
static inline Val mk(u64 c, unsigned w) { Val v; v.c = c & maskw(w); v.w = w; return v; }
Val mks(const z3::expr &e, unsigned w);
z3::expr ex(const Val &v);

// ---------------------------------------------------------------- decoded program
struct Opnd { int reg = -1; Val cv; };
struct Edge { unsigned pc = 0; std::vector<std::pair<int, Opnd>> phis; };
struct DFunc;
struct DInst {
  llvm::Instruction *I = nullptr;
  unsigned op = 0;
  int dst = -1;
  unsigned w = 0;                   // result width in bits (0 for void)
  unsigned bytes = 0;               // load/store size, alloca element size
  unsigned pred = 0;                // icmp predicate
  bool nsw = false, nuw = false, exact = false;
  std::vector<Opnd> ops;
  std::vector<Edge> edges;          // br: [then, else] or [target]; switch: [default, case...]
  std::vector<u64> casevals;
  u64 gepconst = 0;
  std::vector<std::pair<unsigned, u64>> gepterms;   // (operand index, scale)
  DFunc *callee = nullptr;          // direct call to a defined function
  std::string extname;              // direct call to a declaration / intrinsic / sx_ function
  std::vector<unsigned> idxs;       // extractvalue/insertvalue byte offset+size info
  int line = 0;
};
struct DFunc {
  llvm::Function *f = nullptr;
  std::string name, file;
  std::vector<DInst> code;
  unsigned nregs = 0, nargs = 0;
  bool vararg = false, decl = false;
  u64 addr = 0;
  int id = 0;
  u64 calls = 0;
};

// ---------------------------------------------------------------- memory
enum ObjKind { OK_GLOBAL, OK_STACK, OK_MALLOC, OK_NEW, OK_NEWARR };
struct Obj {
  u64 base = 0, size = 0;
  std::vector<uint8_t> b;
  std::unordered_map<u64, z3::expr> s;   // symbolic bytes
  std::vector<uint8_t> uninit;           // empty = fully initialised
  uint8_t kind = OK_GLOBAL;
  bool freed = false, ro = false;
  std::string name;
};
typedef std::shared_ptr<Obj> ObjP;

struct Frame {
  DFunc *f = nullptr;
  unsigned pc = 0;
  size_t regbase = 0;
  std::vector<u64> allocas;
  int retdst = -1;                  // destination register in the caller
  std::vector<Val> varargs;
};
struct JB { size_t depth; unsigned pc; int dst; };
struct Input { std::string name; z3::expr var; unsigned w; };
struct Obs { std::string tag; Val v; };

struct State {
  std::vector<Frame> stk;
  std::vector<Val> regs;
  std::map<u64, ObjP> mem;
  std::vector<z3::expr> pc;
  u64 brk = 0x10000000;
  std::map<u64, JB> jbs;
  std::vector<Input> inputs;
  std::vector<Obs> obs;
  std::vector<std::pair<z3::expr, z3::expr>> pins;
  std::set<unsigned> pinned;
  std::shared_ptr<z3::model> mdl;
  u64 steps = 0;
  int id = 0;
  unsigned forks = 0;
  // allocation failure injection
  bool failarmed = false; Val failk; u64 alloccnt = 0; bool failed_once = false;
  u64 live_heap = 0;
  unsigned lastrange_id = 0; i64 lastrange_lo = 0, lastrange_hi = -1; size_t lastrange_input = 0;   // most recent sx_range variable (fast sx_choice)
  std::map<std::pair<unsigned, u64>, std::vector<z3::expr>> divcache;   // (dividend id, constant divisor) -> (quotient, remainder) variables
  // lookup caches (never shared between states: reset on copy and on any unmapping)
  Obj *rc = nullptr, *wc = nullptr;
  void nocache() { rc = wc = nullptr; }
};

struct PathEnd { std::string why; std::string detail; };
struct Fault { std::string kind, detail; };   // memory / arithmetic fault: reported, path ends

// ---------------------------------------------------------------- globals of the VM
extern std::unique_ptr<llvm::Module> M;
extern const llvm::DataLayout *DL;
extern std::vector<std::unique_ptr<DFunc>> funcs;
extern std::unordered_map<const llvm::Function *, DFunc *> fmap;
extern std::map<u64, DFunc *> fnaddr;
extern std::unordered_map<const llvm::GlobalVariable *, u64> gaddr;
extern std::map<std::string, i64> params;
extern std::vector<State> work;

struct Stats {
  u64 queries = 0, fallbacks = 0, paths = 0, forks = 0, insts = 0, asserts_proved = 0, asserts_concrete = 0,
      unknown = 0, cvc5_dumped = 0, symloads = 0;
  double solver_s = 0;
};
extern Stats st;
extern bool opt_overflow, opt_uninit;
extern u64 opt_maxsteps;
extern std::string opt_dumpdir;
extern unsigned opt_dump_every;

[[noreturn]] void die(const std::string &s);

// memory
Obj *findobj(State &S, u64 a);
u64 alloc(State &S, u64 size, ObjKind kind, const char *nm, bool zeroinit);
Val loadv(State &S, u64 a, unsigned bytes);
void storev(State &S, u64 a, const Val &v, unsigned bytes);
std::string cstr(State &S, u64 a, size_t maxlen = 1 << 20);
void free_obj(State &S, u64 p, ObjKind expect, const char *who);

// solver
bool solve(State &S, const z3::expr *extra, z3::model *mout = nullptr);
bool getmodel(State &S);
void addpc(State &S, const z3::expr &c);
bool branch(State &S, const Val &c);           // forks when both sides feasible
u64 concfork(State &S, const Val &v, const char *what);
Val applypins(State &S, const Val &v);
Val symload(State &S, const Val &av, unsigned by);
std::string modelval(State &S, z3::model &m, const Val &v);

// arithmetic
Val binop(State &S, unsigned op, const Val &a, const Val &b, unsigned w, const DInst *D);
Val icmp(unsigned p, const Val &a, const Val &b);
Val zextv(const Val &v, unsigned w);
Val sextv(const Val &v, unsigned w);
Val truncv(const Val &v, unsigned w);

// execution
void decode_module(State &S0);
void init_globals(State &S);
void enter(State &S, DFunc *f, const std::vector<Val> &args, int retdst);
void step(State &S);
bool extcall(State &S, DInst &D, const std::string &n, std::vector<Val> &a);   // true: control transferred
void do_longjmp(State &S, u64 jb, const Val &v);
std::string srcloc(State &S);

// reporting
void record_violation(State &S, const std::string &kind, const std::string &label, const z3::expr *cond);
void record_pathend(State &S, const std::string &why);
