// instruction interpreter
#include "sxvm.h"
using namespace llvm;

static inline const Val &getop(State &S, Frame &F, const Opnd &o) {
  if (o.reg < 0) return o.cv;
  Val &r = S.regs[F.regbase + o.reg];
  if (r.e && !S.pins.empty()) r = applypins(S, r);
  return r;
}
static inline void setreg(State &S, Frame &F, int dst, const Val &v) { S.regs[F.regbase + dst] = v; }

void enter(State &S, DFunc *f, const std::vector<Val> &args, int retdst) {
  if (f->decl) die("enter declaration " + f->name);
  if (S.stk.size() > 4000) throw Fault{"STACK-OVERFLOW", "call depth > 4000 in " + f->name};
  Frame F; F.f = f; F.pc = 0; F.regbase = S.regs.size(); F.retdst = retdst;
  S.regs.resize(F.regbase + f->nregs);
  if (args.size() < f->nargs) die("too few arguments calling " + f->name);
  for (unsigned i = 0; i < f->nargs; i++) S.regs[F.regbase + i] = args[i];
  for (size_t i = f->nargs; i < args.size(); i++) F.varargs.push_back(args[i]);
  f->calls++;
  S.stk.push_back(std::move(F));
}
static void popframe(State &S) {
  Frame &F = S.stk.back();
  if (!F.allocas.empty()) { S.nocache(); for (u64 a : F.allocas) S.mem.erase(a); }
  S.regs.resize(F.regbase);
  S.stk.pop_back();
}
static void doret(State &S, const Val *rv) {
  int dst = S.stk.back().retdst;
  popframe(S);
  if (S.stk.empty()) throw PathEnd{"done", ""};
  Frame &C = S.stk.back();
  if (rv && dst >= 0) { Val v = *rv; unsigned w = C.f->code[C.pc].w; if (w && v.w != w) v = v.w > w ? truncv(v, w) : zextv(v, w); setreg(S, C, dst, v); }
  C.pc++;
}
void do_longjmp(State &S, u64 jb, const Val &v) {
  auto it = S.jbs.find(jb);
  if (it == S.jbs.end()) throw Fault{"BAD-LONGJMP", "longjmp without setjmp"};
  JB j = it->second;
  if (S.stk.size() < j.depth) throw Fault{"BAD-LONGJMP", "longjmp into a returned frame"};
  while (S.stk.size() > j.depth) popframe(S);
  Frame &T = S.stk.back();
  Val r = v; r.w = 32; if (!r.sym()) { r.c &= 0xffffffff; if (r.c == 0) r.c = 1; }
  if (j.dst >= 0) setreg(S, T, j.dst, r);
  T.pc = j.pc + 1;
}
std::string srcloc(State &S) {
  // innermost frame with a line number that belongs to a file of /repo, else the innermost one
  std::string first;
  for (size_t i = S.stk.size(); i-- > 0;) {
    Frame &F = S.stk[i]; if (F.pc >= F.f->code.size()) continue;
    int line = F.f->code[F.pc].line;
    std::string s = F.f->name + "@" + F.f->file + ":" + std::to_string(line);
    if (first.empty()) first = s;
    if (F.f->file.find("/src/") != std::string::npos || F.f->file.find("sgramm") != std::string::npos) return s;   /* a library source file */
  }
  return first;
}
static void jump(State &S, Frame &F, const Edge &e) {
  if (!e.phis.empty()) {
    if (e.phis.size() == 1) setreg(S, F, e.phis[0].first, getop(S, F, e.phis[0].second));
    else { std::vector<Val> tmp; for (auto &p : e.phis) tmp.push_back(getop(S, F, p.second)); for (size_t i = 0; i < tmp.size(); i++) setreg(S, F, e.phis[i].first, tmp[i]); }
  }
  F.pc = e.pc;
}
static void check_undef(const Val &v, const char *what) {
  if (v.undef && opt_uninit) throw Fault{"UNINIT-USE", what};
}
static double asdbl(u64 b) { double d; memcpy(&d, &b, 8); return d; }
static u64 dblbits(double d) { u64 b; memcpy(&b, &d, 8); return b; }

void step(State &S) {
  Frame &F = S.stk.back();
  DInst &D = F.f->code[F.pc];
  S.steps++; st.insts++;
  switch (D.op) {
  case Instruction::Alloca: {
    u64 n = 1; if (!D.ops.empty()) n = concfork(S, getop(S, F, D.ops[0]), "alloca size");
    u64 a = alloc(S, D.bytes * n, OK_STACK, "stack variable", !opt_uninit);
    S.stk.back().allocas.push_back(a); setreg(S, S.stk.back(), D.dst, mk(a, 64)); break; }
  case Instruction::Load: {
    Val av = getop(S, F, D.ops[0]); check_undef(av, "address of a load");
    Val v = av.sym() ? symload(S, av, D.bytes) : loadv(S, av.c, D.bytes);
    if (v.w != D.w) v = truncv(v, D.w);
    setreg(S, S.stk.back(), D.dst, v); break; }
  case Instruction::Store: {
    Val av = getop(S, F, D.ops[1]); check_undef(av, "address of a store");
    u64 a = concfork(S, av, "store address");
    Frame &F2 = S.stk.back();
    Val v = getop(S, F2, D.ops[0]);
    if (v.w < D.bytes * 8) v = zextv(v, D.bytes * 8);
    storev(S, a, v, D.bytes); break; }
  case Instruction::GetElementPtr: {
    {
      const Val &b0 = getop(S, F, D.ops[0]); bool conc = !b0.e;
      u64 acc = b0.c + D.gepconst; bool und = b0.undef != 0;
      for (auto &t : D.gepterms) { const Val &iv = getop(S, F, D.ops[t.first]); if (iv.e) { conc = false; break; } acc += (u64)sextw(iv.c, iv.w) * t.second; und |= iv.undef != 0; }
      if (conc) { Val r; r.c = acc; r.w = 64; r.undef = umask(und, 64); setreg(S, F, D.dst, r); break; }
    }
    Val r = getop(S, F, D.ops[0]);
    if (D.gepconst) r = binop(S, Instruction::Add, r, mk(D.gepconst, 64), 64, nullptr);
    for (auto &t : D.gepterms) {
      Val iv = getop(S, F, D.ops[t.first]); if (iv.w < 64) iv = sextv(iv, 64);
      r = binop(S, Instruction::Add, r, binop(S, Instruction::Mul, iv, mk(t.second, 64), 64, nullptr), 64, nullptr);
    }
    setreg(S, F, D.dst, r); break; }
  case Instruction::BitCast: case Instruction::PtrToInt: case Instruction::IntToPtr: {
    Val v = getop(S, F, D.ops[0]);
    if (v.w != D.w) v = v.w > D.w ? truncv(v, D.w) : zextv(v, D.w);
    setreg(S, F, D.dst, v); break; }
  case Instruction::Trunc: setreg(S, F, D.dst, truncv(getop(S, F, D.ops[0]), D.w)); break;
  case Instruction::ZExt: setreg(S, F, D.dst, zextv(getop(S, F, D.ops[0]), D.w)); break;
  case Instruction::SExt: setreg(S, F, D.dst, sextv(getop(S, F, D.ops[0]), D.w)); break;
  case Instruction::ICmp: {
    const Val &a = getop(S, F, D.ops[0]); const Val &b = getop(S, F, D.ops[1]);
    if (!a.e && !b.e) {
      u64 x = a.c, y = b.c; bool r;
      switch (D.pred) {
      case CmpInst::ICMP_EQ: r = x == y; break; case CmpInst::ICMP_NE: r = x != y; break;
      case CmpInst::ICMP_UGT: r = x > y; break; case CmpInst::ICMP_UGE: r = x >= y; break;
      case CmpInst::ICMP_ULT: r = x < y; break; case CmpInst::ICMP_ULE: r = x <= y; break;
      case CmpInst::ICMP_SGT: r = sextw(x, a.w) > sextw(y, a.w); break; case CmpInst::ICMP_SGE: r = sextw(x, a.w) >= sextw(y, a.w); break;
      case CmpInst::ICMP_SLT: r = sextw(x, a.w) < sextw(y, a.w); break; default: r = sextw(x, a.w) <= sextw(y, a.w); break;
      }
      Val rv; rv.c = r; rv.w = 1; rv.undef = (a.undef || b.undef) ? 1 : 0; setreg(S, F, D.dst, rv); break;
    }
    setreg(S, F, D.dst, icmp(D.pred, a, b)); break; }
  case Instruction::Select: {
    Val c = getop(S, F, D.ops[0]), a = getop(S, F, D.ops[1]), b = getop(S, F, D.ops[2]);
    check_undef(c, "condition of a select");
    if (!c.sym()) setreg(S, F, D.dst, (c.c & 1) ? a : b);
    else { Val r = mks(z3::ite(ex(c) == Z.bv_val(1, 1), ex(a), ex(b)), a.w); r.undef = a.undef | b.undef; setreg(S, F, D.dst, r); }
    break; }
  case Instruction::Br: {
    if (D.edges.size() == 1) { jump(S, F, D.edges[0]); return; }
    Val c = getop(S, F, D.ops[0]); check_undef(c, "condition of a branch");
    bool t = branch(S, c);
    Frame &F2 = S.stk.back(); jump(S, F2, D.edges[t ? 0 : 1]); return; }
  case Instruction::Switch: {
    Val cv = getop(S, F, D.ops[0]); check_undef(cv, "operand of a switch");
    cv = applypins(S, cv);
    if (!cv.sym()) {
      size_t e = 0; for (size_t i = 0; i < D.casevals.size(); i++) if ((D.casevals[i] & maskw(cv.w)) == cv.c) { e = i + 1; break; }
      jump(S, F, D.edges[e]); return;
    }
    // one fork per feasible successor block
    std::vector<std::pair<unsigned, z3::expr>> groups; std::vector<size_t> gedge; z3::expr anycase = Z.bool_val(false);
    for (size_t i = 0; i < D.casevals.size(); i++) {
      z3::expr eq = ex(cv) == Z.bv_val((uint64_t)D.casevals[i], cv.w); anycase = anycase || eq;
      bool found = false;
      for (size_t g = 0; g < groups.size(); g++) if (groups[g].first == D.edges[i + 1].pc && D.edges[i + 1].phis.empty() && D.edges[gedge[g]].phis.empty()) { groups[g].second = groups[g].second || eq; found = true; break; }
      if (!found) { groups.push_back({D.edges[i + 1].pc, eq}); gedge.push_back(i + 1); }
    }
    groups.push_back({D.edges[0].pc, !anycase}); gedge.push_back(0);
    for (size_t g = 0; g < groups.size(); g++) {
      Val c = mks(z3::ite(groups[g].second, Z.bv_val(1, 1), Z.bv_val(0, 1)), 1);
      if (branch(S, c)) { Frame &F2 = S.stk.back(); jump(S, F2, D.edges[gedge[g]]); return; }
    }
    throw PathEnd{"infeasible", ""}; }
  case Instruction::Ret: {
    if (!D.ops.empty()) { Val v = getop(S, F, D.ops[0]); doret(S, &v); } else doret(S, nullptr);
    return; }
  case Instruction::Unreachable: throw Fault{"UNREACHABLE", "unreachable executed"};
  case Instruction::Call: {
    std::vector<Val> a; size_t na = D.ops.size();
    DFunc *cal = D.callee;
    if (!cal && D.extname.empty()) {
      na--; Val fp = getop(S, F, D.ops[na]); check_undef(fp, "function pointer");
      u64 fa = concfork(S, fp, "function pointer");
      auto it = fnaddr.find(fa);
      if (it == fnaddr.end()) throw Fault{fa < 4096 ? "NULLDEREF" : "WILD-POINTER", "call through invalid function pointer"};
      cal = it->second;
    }
    Frame &F1 = S.stk.back();
    for (size_t i = 0; i < na; i++) a.push_back(getop(S, F1, D.ops[i]));
    if (cal && !cal->decl && cal->name.rfind("sx_", 0) != 0) { enter(S, cal, a, D.dst); return; }
    std::string n = cal ? cal->name : D.extname;
    if (extcall(S, D, n, a)) return;
    break; }
  case Instruction::SIToFP: { Val v = getop(S, F, D.ops[0]); i64 sx = sextw(concfork(S, v, "int to fp"), v.w); setreg(S, S.stk.back(), D.dst, mk(dblbits((double)sx), 64)); break; }
  case Instruction::UIToFP: { Val v = getop(S, F, D.ops[0]); u64 x = concfork(S, v, "int to fp"); setreg(S, S.stk.back(), D.dst, mk(dblbits((double)x), 64)); break; }
  case Instruction::FPToSI: { Val v = getop(S, F, D.ops[0]); setreg(S, F, D.dst, mk((u64)(i64)asdbl(v.c), D.w)); break; }
  case Instruction::FPToUI: { Val v = getop(S, F, D.ops[0]); setreg(S, F, D.dst, mk((u64)asdbl(v.c), D.w)); break; }
  case Instruction::FPExt: case Instruction::FPTrunc: die("float conversions not supported");
  case Instruction::FAdd: case Instruction::FSub: case Instruction::FMul: case Instruction::FDiv: {
    double x = asdbl(getop(S, F, D.ops[0]).c), y = asdbl(getop(S, F, D.ops[1]).c), r;
    switch (D.op) { case Instruction::FAdd: r = x + y; break; case Instruction::FSub: r = x - y; break; case Instruction::FMul: r = x * y; break; default: r = x / y; }
    setreg(S, F, D.dst, mk(dblbits(r), 64)); break; }
  case Instruction::FCmp: {
    double x = asdbl(getop(S, F, D.ops[0]).c), y = asdbl(getop(S, F, D.ops[1]).c); bool r;
    switch (D.pred) {
    case CmpInst::FCMP_OEQ: case CmpInst::FCMP_UEQ: r = x == y; break; case CmpInst::FCMP_ONE: case CmpInst::FCMP_UNE: r = x != y; break;
    case CmpInst::FCMP_OGT: case CmpInst::FCMP_UGT: r = x > y; break; case CmpInst::FCMP_OGE: case CmpInst::FCMP_UGE: r = x >= y; break;
    case CmpInst::FCMP_OLT: case CmpInst::FCMP_ULT: r = x < y; break; case CmpInst::FCMP_OLE: case CmpInst::FCMP_ULE: r = x <= y; break;
    default: die("fcmp predicate");
    }
    setreg(S, F, D.dst, mk(r, 1)); break; }
  default:
    if (D.I->isBinaryOp()) {
      {
        const Val &a = getop(S, F, D.ops[0]); const Val &b = getop(S, F, D.ops[1]);
        if (!a.e && !b.e && !D.nsw && !a.undef && !b.undef) {
          u64 x = a.c, y = b.c, r = 0; bool ok = true;
          switch (D.op) {
          case Instruction::Add: r = x + y; break; case Instruction::Sub: r = x - y; break; case Instruction::Mul: r = x * y; break;
          case Instruction::And: r = x & y; break; case Instruction::Or: r = x | y; break; case Instruction::Xor: r = x ^ y; break;
          default: ok = false;
          }
          if (ok) { Val rv; rv.c = r & maskw(D.w); rv.w = D.w; setreg(S, F, D.dst, rv); break; }
        }
      }
      Val a = getop(S, F, D.ops[0]), b = getop(S, F, D.ops[1]);
      Val r = binop(S, D.op, a, b, D.w, &D);
      setreg(S, S.stk.back(), D.dst, r); break;
    }
    { std::string s; raw_string_ostream os(s); D.I->print(os); die("unhandled instruction: " + os.str()); }
  }
  S.stk.back().pc++;
}
