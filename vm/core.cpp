// memory, solver interface, forking, arithmetic
#include "sxvm.h"
using namespace llvm;

z3::context Z;
Stats st;
bool opt_overflow = true, opt_uninit = true;
u64 opt_maxsteps = 400000000ULL;
std::string opt_dumpdir;
unsigned opt_dump_every = 0;
std::vector<State> work;
std::map<std::string, i64> params;

void die(const std::string &s) { fprintf(stderr, "VMFATAL: %s\n", s.c_str()); fflush(stderr); _exit(3); }

Val mks(const z3::expr &e, unsigned w) {
  z3::expr s = e.simplify();
  if (s.is_numeral()) { u64 c = 0; if (w <= 64) { c = s.get_numeral_uint64(); return mk(c, w); } }
  Val v; v.e = std::make_shared<z3::expr>(s); v.w = w; return v;
}
z3::expr ex(const Val &v) { if (v.e) return *v.e; return Z.bv_val((uint64_t)v.c, v.w); }

// ---------------------------------------------------------------- memory
Obj *findobj(State &S, u64 a) {
  if (S.rc && a >= S.rc->base && a < S.rc->base + S.rc->size) return S.rc;
  auto it = S.mem.upper_bound(a);
  if (it == S.mem.begin()) return nullptr;
  --it; Obj *o = it->second.get();
  if (a >= o->base && a < o->base + o->size) { S.rc = o; return o; }
  if (a == o->base && o->size == 0) return o;
  return nullptr;
}
static Obj *wobj(State &S, u64 a) {
  if (S.wc && a >= S.wc->base && a < S.wc->base + S.wc->size) return S.wc;
  auto it = S.mem.upper_bound(a);
  if (it == S.mem.begin()) return nullptr;
  --it;
  if (a < it->second->base || a >= it->second->base + it->second->size) return nullptr;
  if (it->second.use_count() > 1) { it->second = std::make_shared<Obj>(*it->second); S.rc = nullptr; }
  S.wc = it->second.get();
  return S.wc;
}
u64 alloc(State &S, u64 size, ObjKind kind, const char *nm, bool zeroinit) {
  u64 a = (S.brk + 15) & ~15ULL;
  S.brk = a + size + 32;
  auto o = std::make_shared<Obj>();
  o->base = a; o->size = size; o->b.assign(size, 0); o->kind = kind; o->name = nm;
  if (!zeroinit && size) o->uninit.assign(size, 1);
  S.mem[a] = o;
  if (kind >= OK_MALLOC) S.live_heap++;
  return a;
}
static std::string hexs(u64 a) { char b[32]; snprintf(b, sizeof b, "0x%llx", (unsigned long long)a); return b; }
static void memfault(State &S, u64 a, unsigned bytes, const char *what) {
  // classify
  auto it = S.mem.upper_bound(a); std::string d;
  if (a < 4096) throw Fault{"NULLDEREF", std::string(what) + " at " + hexs(a)};
  if (it != S.mem.begin()) {
    --it; Obj &o = *it->second;
    if (a >= o.base && a < o.base + o.size + 32) {
      if (o.freed) throw Fault{"USE-AFTER-FREE", std::string(what) + " of " + std::to_string(bytes) + " bytes at offset " + std::to_string(a - o.base) + " of freed " + o.name + "[" + std::to_string(o.size) + "]"};
      throw Fault{"OUT-OF-BOUNDS", std::string(what) + " of " + std::to_string(bytes) + " bytes at offset " + std::to_string((i64)(a - o.base)) + " of " + o.name + "[" + std::to_string(o.size) + "]"};
    }
    ++it;
  }
  if (it != S.mem.end() && it->second->base - a <= 32) {
    Obj &o = *it->second;
    throw Fault{"OUT-OF-BOUNDS", std::string(what) + " of " + std::to_string(bytes) + " bytes " + std::to_string(o.base - a) + " bytes before " + o.name + "[" + std::to_string(o.size) + "]"};
  }
  throw Fault{"WILD-POINTER", std::string(what) + " at " + hexs(a)};
}
Val loadv(State &S, u64 a, unsigned bytes) {
  Obj *o = findobj(S, a);
  if (!o || o->freed || a + bytes > o->base + o->size) memfault(S, a, bytes, "load");
  if (o->s.empty() && o->uninit.empty() && bytes <= 8) { u64 v = 0; memcpy(&v, &o->b[a - o->base], bytes); Val r; r.c = v; r.w = bytes * 8; return r; }
  u64 off = a - o->base; bool anys = false; uint8_t und = 0;
  if (!o->s.empty()) for (unsigned i = 0; i < bytes; i++) if (o->s.count(off + i)) { anys = true; break; }
  if (!o->uninit.empty()) for (unsigned i = 0; i < bytes && i < 8; i++) if (o->uninit[off + i]) und |= (uint8_t)(1u << i);
  if (!anys) {
    u64 v = 0; memcpy(&v, &o->b[off], bytes > 8 ? 8 : bytes);
    Val r = mk(v, bytes * 8 > 64 ? 64 : bytes * 8); r.w = bytes * 8; r.undef = und;
    if (bytes > 8) die("load wider than 8 bytes");
    return r;
  }
  if (bytes > 8) die("symbolic load wider than 8 bytes");
  z3::expr r = Z.bv_val(0, 8); bool first = true;
  for (int i = bytes - 1; i >= 0; i--) {
    auto f = o->s.find(off + i);
    z3::expr be = f != o->s.end() ? f->second : Z.bv_val((unsigned)o->b[off + i], 8);
    if (first) { r = be; first = false; } else r = z3::concat(r, be);
  }
  Val rv = applypins(S, mks(r, bytes * 8)); rv.undef = und;
  return rv;
}
void storev(State &S, u64 a, const Val &v, unsigned bytes) {
  Obj *o = wobj(S, a);
  if (!o || o->freed || a + bytes > o->base + o->size) memfault(S, a, bytes, "store");
  if (o->ro) throw Fault{"WRITE-TO-CONST", "store into constant " + o->name};
  u64 off = a - o->base;
  if (!v.e && !v.undef && o->s.empty() && bytes <= 8) { u64 c = v.c; memcpy(&o->b[off], &c, bytes); if (!o->uninit.empty()) memset(&o->uninit[off], 0, bytes); return; }
  if (!o->uninit.empty()) for (unsigned i = 0; i < bytes; i++) o->uninit[off + i] = (v.undef >> (i & 7)) & 1;
  else if (v.undef && opt_uninit) { o->uninit.assign(o->size, 0); for (unsigned i = 0; i < bytes; i++) o->uninit[off + i] = (v.undef >> (i & 7)) & 1; }
  if (!v.sym()) {
    u64 c = v.c; memcpy(&o->b[off], &c, bytes > 8 ? 8 : bytes);
    if (!o->s.empty()) for (unsigned i = 0; i < bytes; i++) o->s.erase(off + i);
  } else {
    z3::expr e = ex(v);
    if (v.w < bytes * 8) e = z3::zext(e, bytes * 8 - v.w);
    for (unsigned i = 0; i < bytes; i++) {
      z3::expr be = e.extract(i * 8 + 7, i * 8).simplify();
      o->s.erase(off + i);
      if (be.is_numeral()) o->b[off + i] = (uint8_t)be.get_numeral_uint64();
      else o->s.emplace(off + i, be);
    }
  }
}
std::string cstr(State &S, u64 a, size_t maxlen) {
  std::string r;
  for (; r.size() < maxlen;) {
    Val v = loadv(S, a++, 1);
    u64 c = v.sym() ? concfork(S, v, "string byte") : v.c;
    if (!c) break;
    r.push_back((char)c);
  }
  return r;
}
void free_obj(State &S, u64 p, ObjKind expect, const char *who) {
  if (!p) return;
  auto it = S.mem.find(p);
  if (it == S.mem.end()) {
    Obj *o = findobj(S, p);
    if (o) throw Fault{"BAD-FREE", std::string(who) + " of interior pointer into " + o->name + "[" + std::to_string(o->size) + "] offset " + std::to_string(p - o->base)};
    throw Fault{"BAD-FREE", std::string(who) + " of non-object address " + hexs(p)};
  }
  if (it->second->freed) throw Fault{"DOUBLE-FREE", std::string(who) + " of already freed " + it->second->name + "[" + std::to_string(it->second->size) + "]"};
  if (it->second->kind < OK_MALLOC) throw Fault{"BAD-FREE", std::string(who) + " of non-heap object " + it->second->name};
  if (it->second->kind != expect) throw Fault{"ALLOC-DEALLOC-MISMATCH", std::string(who) + " of block from a different allocator family"};
  if (it->second.use_count() > 1) it->second = std::make_shared<Obj>(*it->second);
  S.nocache();
  it->second->freed = true; it->second->b.clear(); it->second->b.shrink_to_fit(); it->second->s.clear(); it->second->uninit.clear();
  S.live_heap--;
}

// ---------------------------------------------------------------- solver
static z3::solver *SV = nullptr;
static std::vector<Z3_ast> svstack;
static void syncsolver(State &S) {
  if (!SV) { SV = new z3::solver(Z); z3::params p(Z); p.set("timeout", (unsigned)400); SV->set(p); }
  size_t k = 0;
  while (k < svstack.size() && k < S.pc.size() && svstack[k] == (Z3_ast)S.pc[k]) k++;
  if (k < svstack.size()) { SV->pop(svstack.size() - k); svstack.resize(k); }
  for (; k < S.pc.size(); k++) { SV->push(); SV->add(S.pc[k]); svstack.push_back((Z3_ast)S.pc[k]); }
}
static void dumpquery(State &S, const z3::expr *extra, bool sat) {
  z3::solver f(Z);
  for (auto &c : S.pc) f.add(c);
  if (extra) f.add(*extra);
  std::string fn = opt_dumpdir + "/q" + std::to_string(getpid()) + "_" + std::to_string(st.queries) + (sat ? ".sat" : ".unsat") + ".smt2";
  FILE *fp = fopen(fn.c_str(), "w"); if (!fp) return;
  fprintf(fp, "(set-logic QF_BV)\n%s(check-sat)\n", f.to_smt2().c_str()); fclose(fp); st.cvc5_dumped++;
}
bool solve(State &S, const z3::expr *extra, z3::model *mout) {
  auto t0 = std::chrono::steady_clock::now();
  syncsolver(S);
  if (extra) { SV->push(); SV->add(*extra); }
  st.queries++;
  auto r = SV->check();
  if (r == z3::sat && mout) *mout = SV->get_model();
  if (extra) SV->pop();
  if (r == z3::unknown) {
    st.fallbacks++;
    z3::solver f = z3::tactic(Z, "qfbv").mk_solver();
    z3::params p(Z); p.set("timeout", (unsigned)60000); f.set(p);
    for (auto &c : S.pc) f.add(c);
    if (extra) f.add(*extra);
    r = f.check();
    if (r == z3::sat && mout) *mout = f.get_model();
  }
  st.solver_s += std::chrono::duration<double>(std::chrono::steady_clock::now() - t0).count();
  if (r == z3::unknown) { st.unknown++; throw PathEnd{"INCONCLUSIVE", "solver returned unknown"}; }
  if (opt_dump_every && st.queries % opt_dump_every == 0) dumpquery(S, extra, r == z3::sat);
  return r == z3::sat;
}
bool getmodel(State &S) {
  if (S.mdl) return true;
  z3::model m(Z);
  if (!solve(S, nullptr, &m)) return false;
  S.mdl = std::make_shared<z3::model>(m);
  return true;
}
Val applypins(State &S, const Val &v) {
  if (!v.sym() || S.pins.empty()) return v;
  z3::expr_vector f(Z), t(Z);
  for (auto &p : S.pins) { f.push_back(p.first); t.push_back(p.second); }
  z3::expr e = *v.e;
  Val r = mks(e.substitute(f, t), v.w); r.undef = v.undef;
  return r;
}
static void collect_vars(const z3::expr &e, std::set<unsigned> &seen, std::set<std::string> &out) {
  if (!seen.insert(e.id()).second) return;
  if (e.is_const() && !e.is_numeral()) { if (e.is_bv()) out.insert(e.decl().name().str()); return; }
  if (e.is_app()) for (unsigned i = 0; i < e.num_args(); i++) collect_vars(e.arg(i), seen, out);
}
// after constraint c was added: inputs occurring in c that are now forced to a single value become constants
bool opt_pin = true;
static void trypin(State &S, const z3::expr &c) {
  if (!opt_pin) return;
  std::set<unsigned> seen; std::set<std::string> vars;
  collect_vars(c, seen, vars);
  for (size_t i = 0; i < S.inputs.size(); i++) {
    if (S.pinned.count(i) || !vars.count(S.inputs[i].name)) continue;
    if (!getmodel(S)) return;
    z3::expr var = S.inputs[i].var;
    z3::expr val = S.mdl->eval(var, true);
    z3::expr ne = var != val;
    if (!solve(S, &ne)) { S.pinned.insert(i); S.pins.push_back({var, val}); }
  }
}
void addpc(State &S, const z3::expr &c) {
  S.pc.push_back(c);
  if (S.mdl && !S.mdl->eval(c, true).is_true()) S.mdl.reset();
}
static void fork_other(State &S, const z3::expr &c, z3::model &om) {
  st.forks++;
  S.nocache();
  State o = S; o.id = ++st.paths; o.forks = S.forks + 1;
  addpc(o, c); o.mdl = std::make_shared<z3::model>(om);
  trypin(o, c);
  work.push_back(std::move(o));
}
bool branch(State &S, const Val &c0) {
  if (!c0.sym()) return c0.c & 1;
  Val c = applypins(S, c0);
  if (!c.sym()) return c.c & 1;
  z3::expr t = ex(c) == Z.bv_val(1, 1), f = !t;
  if (!getmodel(S)) throw PathEnd{"infeasible", ""};
  bool mside = S.mdl->eval(t, true).is_true();
  z3::model om(Z);
  if (solve(S, mside ? &f : &t, &om)) {
    fork_other(S, mside ? f : t, om);
    addpc(S, mside ? t : f); S.forks++;
    trypin(S, mside ? t : f);
  }
  return mside;
}
u64 concfork(State &S, const Val &v0, const char *what) {
  if (!v0.sym()) return v0.c;
  Val v = applypins(S, v0);
  if (!v.sym()) return v.c;
  if (!getmodel(S)) throw PathEnd{"infeasible", ""};
  u64 c = S.mdl->eval(ex(v), true).get_numeral_uint64();
  z3::expr eq = ex(v) == Z.bv_val((uint64_t)c, v.w), ne = !eq;
  z3::model om(Z);
  if (solve(S, &ne, &om)) {
    fork_other(S, ne, om);
    addpc(S, eq); S.forks++;
    trypin(S, eq);
  }
  return c;
}
std::string modelval(State &S, z3::model &m, const Val &v) {
  if (!v.sym()) return std::to_string((long long)sextw(v.c, v.w));
  z3::expr r = m.eval(ex(v), true);
  if (r.is_numeral()) return std::to_string((long long)sextw(r.get_numeral_uint64(), v.w));
  return "?";
}

// symbolic-address load.  Fork per feasible object; inside one object group the aligned cells by value:
// narrow integer tables become an ite term, wider (pointer) cells fork once per distinct value.
Val symload(State &S, const Val &av0, unsigned by) {
  Val av = applypins(S, av0);
  if (!av.sym()) return loadv(S, av.c, by);
  st.symloads++;
  if (!getmodel(S)) throw PathEnd{"infeasible", ""};
  u64 a0 = S.mdl->eval(ex(av), true).get_numeral_uint64();
  Obj *o = findobj(S, a0);
  if (!o || o->freed || a0 + by > o->base + o->size) memfault(S, a0, by, "load (symbolic address)");
  z3::expr A = ex(av);
  z3::expr inobj = z3::uge(A, Z.bv_val((uint64_t)o->base, 64)) && z3::ule(A, Z.bv_val((uint64_t)(o->base + o->size - by), 64));
  Val cin = mks(z3::ite(inobj, Z.bv_val(1, 1), Z.bv_val(0, 1)), 1);
  if (!branch(S, cin)) die("symload: model side mismatch");
  if (by > 1) {
    z3::expr mis = z3::urem(A - Z.bv_val((uint64_t)o->base, 64), Z.bv_val((uint64_t)by, 64)) != Z.bv_val(0, 64);
    if ((a0 - o->base) % by != 0 || solve(S, &mis)) { u64 a = concfork(S, av, "unaligned symbolic load"); return loadv(S, a, by); }
  }
  if (o->size / by > 70000) { u64 a = concfork(S, av, "load from large object"); return loadv(S, a, by); }
  struct Grp { Val v; std::vector<u64> offs; };
  std::map<std::string, size_t> idx; std::vector<Grp> groups;
  for (u64 off = 0; off + by <= o->size; off += by) {
    Val v = loadv(S, o->base + off, by);
    std::string key = v.sym() ? ("s" + std::to_string(v.e->id())) : ("c" + std::to_string(v.c) + (v.undef ? "u" : ""));
    auto it = idx.find(key);
    if (it == idx.end()) { idx[key] = groups.size(); groups.push_back({v, {off}}); } else groups[it->second].offs.push_back(off);
  }
  if (groups.size() == 1) return groups[0].v;
  size_t big = 0; for (size_t i = 1; i < groups.size(); i++) if (groups[i].offs.size() > groups[big].offs.size()) big = i;
  auto cond_of = [&](size_t gi) {
    z3::expr c = Z.bool_val(false);
    for (u64 off : groups[gi].offs) c = c || (A == Z.bv_val((uint64_t)(o->base + off), 64));
    return c;
  };
  if (by <= 2 && groups.size() <= 300) {
    z3::expr r = ex(groups[big].v); bool und = false;
    for (size_t i = 0; i < groups.size(); i++) { if (i == big) continue; r = z3::ite(cond_of(i), ex(groups[i].v), r); und |= groups[i].v.undef != 0; }
    Val rv = mks(r, by * 8); rv.undef = umask(und, by * 8); return rv;
  }
  if (groups.size() > 256) { u64 a = concfork(S, av, "load with many distinct cells"); return loadv(S, a, by); }
  // fork per distinct value; model side first
  u64 moff = a0 - o->base; size_t mg = 0;
  for (size_t i = 0; i < groups.size(); i++) for (u64 off : groups[i].offs) if (off == moff) mg = i;
  std::vector<size_t> order; order.push_back(mg); for (size_t i = 0; i < groups.size(); i++) if (i != mg) order.push_back(i);
  z3::expr others = Z.bool_val(false);
  for (size_t i = 0; i < groups.size(); i++) if (i != big) others = others || cond_of(i);
  for (size_t k = 0; k < order.size(); k++) {
    size_t gi = order[k];
    z3::expr c = gi == big ? !others : cond_of(gi);
    Val cv = mks(z3::ite(c, Z.bv_val(1, 1), Z.bv_val(0, 1)), 1);
    if (branch(S, cv)) return groups[gi].v;
  }
  throw PathEnd{"infeasible", ""};
}

// ---------------------------------------------------------------- arithmetic
Val zextv(const Val &v, unsigned w) { if (v.w == w) return v; Val r = v.sym() ? mks(z3::zext(ex(v), w - v.w), w) : mk(v.c, w); r.undef = v.undef; return r; }
Val sextv(const Val &v, unsigned w) { if (v.w == w) return v; Val r = v.sym() ? mks(z3::sext(ex(v), w - v.w), w) : mk((u64)sextw(v.c, v.w), w); r.undef = v.undef; if (v.undef & (1u << ((v.w - 1) / 8))) r.undef = umask(true, w); return r; }
Val truncv(const Val &v, unsigned w) { if (v.w == w) return v; Val r = v.sym() ? mks(ex(v).extract(w - 1, 0), w) : mk(v.c, w); r.undef = v.undef & umask(true, w); return r; }

static void sym_ub(State &S, const z3::expr &bad, const char *kind, const std::string &detail) {
  // is the undefined case reachable?  if so report it with a model and continue on the defined side
  if (S.mdl && S.mdl->eval(bad, true).is_false()) { if (!solve(S, &bad)) return; }
  else if (!solve(S, &bad)) return;
  record_violation(S, kind, detail, &bad);
  z3::expr good = !bad;
  if (!solve(S, &good)) throw PathEnd{"fault-always", kind};
  addpc(S, good);
}
Val binop(State &S, unsigned op, const Val &a, const Val &b, unsigned w, const DInst *D) {
  bool nsw = D && D->nsw && opt_overflow;
  Val r;
  if (!a.sym() && !b.sym()) {
    u64 x = a.c, y = b.c, m = maskw(w); i64 sx = sextw(x, w), sy = sextw(y, w);
    switch (op) {
    case Instruction::Add: if (nsw) { __int128 t = (__int128)sx + sy; if (t != (__int128)sextw((u64)t & m, w)) throw Fault{"SIGNED-OVERFLOW", std::to_string(sx) + " + " + std::to_string(sy)}; } r = mk(x + y, w); break;
    case Instruction::Sub: if (nsw) { __int128 t = (__int128)sx - sy; if (t != (__int128)sextw((u64)t & m, w)) throw Fault{"SIGNED-OVERFLOW", std::to_string(sx) + " - " + std::to_string(sy)}; } r = mk(x - y, w); break;
    case Instruction::Mul: if (nsw) { __int128 t = (__int128)sx * sy; if (t != (__int128)sextw((u64)t & m, w)) throw Fault{"SIGNED-OVERFLOW", std::to_string(sx) + " * " + std::to_string(sy)}; } r = mk(x * y, w); break;
    case Instruction::UDiv: if (!y) throw Fault{"DIV-BY-ZERO", ""}; r = mk(x / y, w); break;
    case Instruction::SDiv: if (!y) throw Fault{"DIV-BY-ZERO", ""}; if (sy == -1 && sx == sextw(1ULL << (w - 1), w)) throw Fault{"SIGNED-OVERFLOW", "INT_MIN / -1"}; r = mk((u64)(sx / sy), w); break;
    case Instruction::URem: if (!y) throw Fault{"DIV-BY-ZERO", ""}; r = mk(x % y, w); break;
    case Instruction::SRem: if (!y) throw Fault{"DIV-BY-ZERO", ""}; if (sy == -1) r = mk(0, w); else r = mk((u64)(sx % sy), w); break;
    case Instruction::And: r = mk(x & y, w); break;
    case Instruction::Or: r = mk(x | y, w); break;
    case Instruction::Xor: r = mk(x ^ y, w); break;
    case Instruction::Shl:
      if (y >= w) throw Fault{"SHIFT-TOO-WIDE", "shl by " + std::to_string(y)};
      if (nsw && sextw((u64)(sx << y) & m, w) >> y != sx) throw Fault{"SIGNED-OVERFLOW", std::to_string(sx) + " << " + std::to_string(y)};
      r = mk(x << y, w); break;
    case Instruction::LShr: if (y >= w) throw Fault{"SHIFT-TOO-WIDE", "lshr by " + std::to_string(y)}; r = mk((x & m) >> y, w); break;
    case Instruction::AShr: if (y >= w) throw Fault{"SHIFT-TOO-WIDE", "ashr by " + std::to_string(y)}; r = mk((u64)(sx >> y), w); break;
    default: die("binop opcode");
    }
    r.undef = umask(a.undef || b.undef, w);
    if (a.undef || b.undef) {
      // byte-precise cases that compilers generate when they blend a partially initialised word
      auto bytes_where = [&](u64 c, bool want_nonzero_else_notff) { uint8_t mk8 = 0; for (unsigned i = 0; i < (w + 7) / 8 && i < 8; i++) { uint8_t by = (c >> (8 * i)) & 0xff; if (want_nonzero_else_notff ? by != 0 : by != 0xff) mk8 |= (uint8_t)(1u << i); } return mk8; };
      if (op == Instruction::And && !(a.undef && b.undef)) r.undef = a.undef ? (a.undef & bytes_where(b.c, true)) : (b.undef & bytes_where(a.c, true));
      else if (op == Instruction::Or && !(a.undef && b.undef)) r.undef = a.undef ? (a.undef & bytes_where(b.c, false)) : (b.undef & bytes_where(a.c, false));
      else if ((op == Instruction::And || op == Instruction::Or || op == Instruction::Xor)) r.undef = a.undef | b.undef;
      else if (op == Instruction::Shl && !b.undef && (b.c % 8) == 0) r.undef = (uint8_t)(a.undef << (b.c / 8)) & umask(true, w);
      else if ((op == Instruction::LShr || op == Instruction::AShr) && !b.undef && (b.c % 8) == 0) r.undef = (uint8_t)(a.undef >> (b.c / 8));
    }
    return r;
  }
  z3::expr x = ex(a), y = ex(b);
  auto ctx = (Z3_context)Z;
  switch (op) {
  case Instruction::Add:
    if (nsw) sym_ub(S, !(z3::expr(Z, Z3_mk_bvadd_no_overflow(ctx, x, y, true)) && z3::expr(Z, Z3_mk_bvadd_no_underflow(ctx, x, y))), "SIGNED-OVERFLOW", "symbolic add");
    r = mks(x + y, w); break;
  case Instruction::Sub:
    if (nsw) sym_ub(S, !(z3::expr(Z, Z3_mk_bvsub_no_overflow(ctx, x, y)) && z3::expr(Z, Z3_mk_bvsub_no_underflow(ctx, x, y, true))), "SIGNED-OVERFLOW", "symbolic sub");
    r = mks(x - y, w); break;
  case Instruction::Mul:
    if (nsw) sym_ub(S, !(z3::expr(Z, Z3_mk_bvmul_no_overflow(ctx, x, y, true)) && z3::expr(Z, Z3_mk_bvmul_no_underflow(ctx, x, y))), "SIGNED-OVERFLOW", "symbolic mul");
    r = mks(x * y, w); break;
  case Instruction::UDiv: case Instruction::URem:
    if (!b.sym() && b.c > 1 && a.sym()) {
      // division by a constant: x = q*c + r, r < c, q <= max/c, x >= r characterises q and r exactly and
      // bit-blasts to a constant multiplier instead of a divider circuit
      static u64 fresh = 0;
      auto key = std::make_pair(a.e->id(), b.c);
      auto it = S.divcache.find(key);
      if (it == S.divcache.end()) {
        z3::expr q = Z.bv_const(("q!" + std::to_string(fresh)).c_str(), w), rr = Z.bv_const(("r!" + std::to_string(fresh)).c_str(), w); fresh++;
        z3::expr cst = Z.bv_val((uint64_t)b.c, w);
        addpc(S, x == q * cst + rr && z3::ult(rr, cst) && z3::ule(q, Z.bv_val((uint64_t)(maskw(w) / b.c), w)) && z3::uge(x, rr));   // neither the product nor the sum wraps
        it = S.divcache.emplace(key, std::vector<z3::expr>{q, rr, x}).first;   // x is kept alive so that its id cannot be reused
      }
      r = mks(op == Instruction::UDiv ? it->second[0] : it->second[1], w); break;
    }
    sym_ub(S, y == Z.bv_val(0, w), "DIV-BY-ZERO", op == Instruction::UDiv ? "symbolic udiv" : "symbolic urem");
    r = mks(op == Instruction::UDiv ? z3::udiv(x, y) : z3::urem(x, y), w); break;
  case Instruction::SDiv: sym_ub(S, y == Z.bv_val(0, w), "DIV-BY-ZERO", "symbolic sdiv"); r = mks(x / y, w); break;
  case Instruction::SRem: sym_ub(S, y == Z.bv_val(0, w), "DIV-BY-ZERO", "symbolic srem"); r = mks(z3::srem(x, y), w); break;
  case Instruction::And: r = mks(x & y, w); break;
  case Instruction::Or: r = mks(x | y, w); break;
  case Instruction::Xor: r = mks(x ^ y, w); break;
  case Instruction::Shl:
    if (b.sym()) sym_ub(S, z3::uge(y, Z.bv_val(w, w)), "SHIFT-TOO-WIDE", "symbolic shl");
    if (nsw) sym_ub(S, z3::ashr(z3::shl(x, y), y) != x, "SIGNED-OVERFLOW", "symbolic shl");
    r = mks(z3::shl(x, y), w); break;
  case Instruction::LShr: if (b.sym()) sym_ub(S, z3::uge(y, Z.bv_val(w, w)), "SHIFT-TOO-WIDE", "symbolic lshr"); r = mks(z3::lshr(x, y), w); break;
  case Instruction::AShr: if (b.sym()) sym_ub(S, z3::uge(y, Z.bv_val(w, w)), "SHIFT-TOO-WIDE", "symbolic ashr"); r = mks(z3::ashr(x, y), w); break;
  default: die("binop opcode (symbolic)");
  }
  r.undef = umask(a.undef || b.undef, w); return r;
}
Val icmp(unsigned p, const Val &a, const Val &b) {
  unsigned w = a.w; Val res;
  if (!a.sym() && !b.sym()) {
    u64 x = a.c, y = b.c; i64 sx = sextw(x, w), sy = sextw(y, w); bool r;
    switch (p) {
    case CmpInst::ICMP_EQ: r = x == y; break; case CmpInst::ICMP_NE: r = x != y; break;
    case CmpInst::ICMP_UGT: r = x > y; break; case CmpInst::ICMP_UGE: r = x >= y; break;
    case CmpInst::ICMP_ULT: r = x < y; break; case CmpInst::ICMP_ULE: r = x <= y; break;
    case CmpInst::ICMP_SGT: r = sx > sy; break; case CmpInst::ICMP_SGE: r = sx >= sy; break;
    case CmpInst::ICMP_SLT: r = sx < sy; break; case CmpInst::ICMP_SLE: r = sx <= sy; break;
    default: die("icmp predicate");
    }
    res = mk(r, 1);
  } else {
    z3::expr x = ex(a), y = ex(b); z3::expr r = Z.bool_val(false);
    switch (p) {
    case CmpInst::ICMP_EQ: r = x == y; break; case CmpInst::ICMP_NE: r = x != y; break;
    case CmpInst::ICMP_UGT: r = z3::ugt(x, y); break; case CmpInst::ICMP_UGE: r = z3::uge(x, y); break;
    case CmpInst::ICMP_ULT: r = z3::ult(x, y); break; case CmpInst::ICMP_ULE: r = z3::ule(x, y); break;
    case CmpInst::ICMP_SGT: r = x > y; break; case CmpInst::ICMP_SGE: r = x >= y; break;
    case CmpInst::ICMP_SLT: r = x < y; break; case CmpInst::ICMP_SLE: r = x <= y; break;
    default: die("icmp predicate (symbolic)");
    }
    res = mks(z3::ite(r, Z.bv_val(1, 1), Z.bv_val(0, 1)), 1);
  }
  res.undef = (a.undef || b.undef) ? 1 : 0; return res;
}
