#!/bin/sh
# builds /verif/vm/sxvm from the sources next to this script (offline; LLVM-14 and libz3 dev files are installed)
set -e
cd "$(dirname "$0")"
CXXFLAGS="-O2 -g0 -std=c++17 -I/usr/lib/llvm-14/include -D_GNU_SOURCE -D__STDC_CONSTANT_MACROS -D__STDC_FORMAT_MACROS -D__STDC_LIMIT_MACROS -Wno-deprecated-declarations"
mkdir -p obj
pids=""
for f in core decode exec ext main; do
  if [ ! -f obj/$f.o ] || [ $f.cpp -nt obj/$f.o ] || [ sxvm.h -nt obj/$f.o ]; then
    clang++-14 $CXXFLAGS -c $f.cpp -o obj/$f.o &
    pids="$pids $!"
  fi
done
for p in $pids; do wait $p; done
clang++-14 obj/core.o obj/decode.o obj/exec.o obj/ext.o obj/main.o -L/usr/lib/llvm-14/lib -lLLVM-14 -lz3 -o sxvm
