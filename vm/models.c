/* libc pieces that are executed *inside* the VM (compiled to IR): qsort must call the real
   comparators; the ctype predicates are real calls in C++ builds. */
#include <stddef.h>
void qsort (void *base, size_t n, size_t sz, int (*cmp) (const void *, const void *))
{
  char *b = (char *) base; size_t i, j, k; char tmp[512];
  if (sz > sizeof tmp) __builtin_trap ();
  for (i = 1; i < n; i++)
    {
      for (k = 0; k < sz; k++) tmp[k] = b[i * sz + k];
      j = i;
      while (j > 0 && cmp (b + (j - 1) * sz, tmp) > 0)
        {
          for (k = 0; k < sz; k++) b[j * sz + k] = b[(j - 1) * sz + k];
          j--;
        }
      for (k = 0; k < sz; k++) b[j * sz + k] = tmp[k];
    }
}
int isalpha (int c) { return (c >= 'a' && c <= 'z') || (c >= 'A' && c <= 'Z'); }
int isdigit (int c) { return c >= '0' && c <= '9'; }
int isalnum (int c) { return isalpha (c) || isdigit (c); }
int isprint (int c) { return c >= 32 && c <= 126; }
int isspace (int c) { return c == ' ' || (c >= 9 && c <= 13); }
