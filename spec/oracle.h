/* Reference oracles (DESIGN.md section 4): the most naive statement of what the documentation
   promises.  No Earley sets, no lookahead, no sharing.  Works on the harness's own grammar data G
   (gram.h) and on a sequence seq[0..seqn) of symbol indices (real terminals, or the `error'
   symbol in repaired inputs). */
#ifndef ORACLE_H
#define ORACLE_H
#include "gram.h"
#include "sx.h"

#define O_MAXN 27
static int seq[O_MAXN]; static int seqn;

/* ---------------- derivability: der[X][i][j]  <=>  X =>* seq[i..j) */
static char o_der[G_MAXSYM][O_MAXN + 1][O_MAXN + 1];
static int o_symder (int s, int i, int j)
{
  if (G.sym[s].kind == SK_NT) return o_der[s][i][j];
  return j == i + 1 && seq[i] == s;
}
static int o_seqder (const struct grule *R, int k, int i, int j)
{
  int m;
  if (k == R->n) return i == j;
  for (m = i; m <= j; m++) if (o_symder (R->rhs[k], i, m) && o_seqder (R, k + 1, m, j)) return 1;
  return 0;
}
static void o_compute_derives (void)
{
  int ch = 1, r, i, j;
  memset (o_der, 0, sizeof o_der);
  while (ch)
    {
      ch = 0;
      for (r = 0; r < G.nrule; r++)
        for (i = 0; i <= seqn; i++)
          for (j = i; j <= seqn; j++)
            if (!o_der[G.rule[r].lhs][i][j] && o_seqder (&G.rule[r], 0, i, j)) { o_der[G.rule[r].lhs][i][j] = 1; ch = 1; }
    }
}
static int o_sentence (void) { o_compute_derives (); return o_der[g_start ()][0][seqn]; }

/* ---------------- productive nonterminals and viable prefixes (error is an ordinary terminal) */
static char o_prod[G_MAXSYM];
static void o_compute_productive (void)
{
  int ch = 1, r, k;
  memset (o_prod, 0, sizeof o_prod);
  for (k = 0; k < G.nsym; k++) if (G.sym[k].kind != SK_NT) o_prod[k] = 1;
  while (ch)
    {
      ch = 0;
      for (r = 0; r < G.nrule; r++)
        if (!o_prod[G.rule[r].lhs])
          { for (k = 0; k < G.rule[r].n; k++) if (!o_prod[G.rule[r].rhs[k]]) break; if (k == G.rule[r].n) { o_prod[G.rule[r].lhs] = 1; ch = 1; } }
    }
}
/* pre[X][i]: some string derived from X starts with seq[i..seqn) and continues arbitrarily
   (i.e. seq[i..seqn) is a proper-or-complete prefix of a string of X), all symbols productive. */
static char o_pre[G_MAXSYM][O_MAXN + 1];
static int o_restprod (const struct grule *R, int k) { for (; k < R->n; k++) if (!o_prod[R->rhs[k]]) return 0; return 1; }
static int o_seqpre (const struct grule *R, int k, int i)
{
  /* rhs[k..] derives something that starts with seq[i..seqn) */
  int m, s;
  if (i == seqn) return o_restprod (R, k);
  if (k == R->n) return 0;
  s = R->rhs[k];
  for (m = i; m <= seqn; m++) if (o_symder (s, i, m) && o_seqpre (R, k + 1, m)) return 1;   /* symbol fully inside */
  if (G.sym[s].kind == SK_NT && o_pre[s][i] && o_restprod (R, k + 1)) return 1;             /* input ends inside symbol */
  return 0;
}
static void o_compute_prefix (void)
{
  int ch = 1, r, i;
  o_compute_derives (); o_compute_productive ();
  memset (o_pre, 0, sizeof o_pre);
  while (ch)
    {
      ch = 0;
      for (r = 0; r < G.nrule; r++)
        for (i = 0; i <= seqn; i++)
          if (!o_pre[G.rule[r].lhs][i] && o_prod[G.rule[r].lhs] && o_seqpre (&G.rule[r], 0, i)) { o_pre[G.rule[r].lhs][i] = 1; ch = 1; }
    }
}
/* is seq[0..seqn) a prefix of a sentence of `start'? */
static int o_viable_prefix (void) { o_compute_prefix (); return o_pre[g_start ()][0]; }

/* ---------------- translations of all derivations, as hash-consed trees */
enum { OT_NIL, OT_ERR, OT_TERM, OT_ANODE };
#define O_MAXT 6000
#define O_MAXL 40000
struct otree { unsigned char kind, nch; short rule; short pos; short ch[G_MAXTR]; };
static struct otree o_t[O_MAXT]; static int o_nt;
static short o_list[O_MAXL]; static int o_nlist;            /* pool of tree-id lists */
static int o_lstart[G_MAXSYM][O_MAXN + 1][O_MAXN + 1], o_llen[G_MAXSYM][O_MAXN + 1][O_MAXN + 1];
static char o_lstate[G_MAXSYM][O_MAXN + 1][O_MAXN + 1];     /* 0 none, 1 in progress, 2 done */
static int o_overflow;

/* two rules build indistinguishable abstract nodes when name and cost agree */
static int o_rule_class (int r)
{
  int q;
  for (q = 0; q < r; q++)
    if (G.rule[q].anode && strcmp (G.rule[q].anode, G.rule[r].anode) == 0 && G.rule[q].cost == G.rule[r].cost) return q;
  return r;
}
static int o_mk (int kind, int rule, int pos, int nch, const short *ch)
{
  int i, k;
  for (i = 0; i < o_nt; i++)
    if (o_t[i].kind == kind && o_t[i].rule == rule && o_t[i].pos == pos && o_t[i].nch == nch)
      { for (k = 0; k < nch; k++) if (o_t[i].ch[k] != ch[k]) break; if (k == nch) return i; }
  if (o_nt >= O_MAXT) { o_overflow = 1; return 0; }
  o_t[o_nt].kind = (unsigned char) kind; o_t[o_nt].rule = (short) rule; o_t[o_nt].pos = (short) pos; o_t[o_nt].nch = (unsigned char) nch;
  for (k = 0; k < nch; k++) o_t[o_nt].ch[k] = ch[k];
  return o_nt++;
}
static void o_trans_reset (void)
{
  o_nt = 0; o_nlist = 0; o_overflow = 0; memset (o_lstate, 0, sizeof o_lstate);
  o_mk (OT_NIL, -1, -1, 0, NULL);      /* id 0 */
  o_mk (OT_ERR, -1, -1, 0, NULL);      /* id 1 */
}
static void o_trans_sym (int s, int i, int j);
/* enumerate splits of rule R over [i,j), children chosen so far in cur[] */
static short o_tmp[4096]; static int o_ntmp;
static void o_add_tmp (int id) { int k; for (k = 0; k < o_ntmp; k++) if (o_tmp[k] == id) return; if (o_ntmp < 4096) o_tmp[o_ntmp++] = (short) id; else o_overflow = 1; }
static void o_rule_trans (int r, int k, int i, int j, short *cur, short *out, int *nout, int maxout)
{
  const struct grule *R = &G.rule[r]; int m, q, s;
  if (k == R->n)
    {
      int id; short ch[G_MAXTR];
      if (i != j) return;
      if (R->anode) { for (q = 0; q < R->ntr; q++) ch[q] = R->tr[q] == NILTR ? 0 : cur[R->tr[q]]; id = o_mk (OT_ANODE, o_rule_class (r), -1, R->ntr, ch); }
      else if (R->ntr == 0 || R->tr[0] == NILTR) id = 0;
      else id = cur[R->tr[0]];
      for (q = 0; q < *nout; q++) if (out[q] == id) return;
      if (*nout < maxout) out[(*nout)++] = (short) id; else o_overflow = 1;
      return;
    }
  s = R->rhs[k];
  for (m = i; m <= j; m++)
    {
      if (!o_symder (s, i, m) || !o_seqder (R, k + 1, m, j)) continue;
      if (G.sym[s].kind == SK_TERM) { cur[k] = (short) o_mk (OT_TERM, -1, i, 0, NULL); o_rule_trans (r, k + 1, m, j, cur, out, nout, maxout); }
      else if (G.sym[s].kind == SK_ERR) { cur[k] = 1; o_rule_trans (r, k + 1, m, j, cur, out, nout, maxout); }
      else
        {
          int a, st, ln;
          o_trans_sym (s, i, m);
          st = o_lstart[s][i][m]; ln = o_llen[s][i][m];
          for (a = 0; a < ln; a++) { cur[k] = o_list[st + a]; o_rule_trans (r, k + 1, m, j, cur, out, nout, maxout); }
        }
    }
}
static void o_trans_sym (int s, int i, int j)
{
  short out[600]; int nout = 0, r, q; short cur[G_MAXRHS];
  if (o_lstate[s][i][j] == 2) return;
  if (o_lstate[s][i][j] == 1) { sx_assert (0, "oracle: cyclic derivation in an accepted grammar"); sx_end_path (); }
  o_lstate[s][i][j] = 1;
  for (r = 0; r < G.nrule; r++) if (G.rule[r].lhs == s) o_rule_trans (r, 0, i, j, cur, out, &nout, 600);
  if (o_nlist + nout > O_MAXL) { o_overflow = 1; nout = 0; }
  o_lstart[s][i][j] = o_nlist; o_llen[s][i][j] = nout;
  for (q = 0; q < nout; q++) o_list[o_nlist++] = out[q];
  o_lstate[s][i][j] = 2;
}
/* all translations of the whole sequence from the start symbol; result: o_res[0..o_nres) */
static const short *o_res; static int o_nres;
static void o_translations (void)
{
  int s = g_start ();
  o_compute_derives (); o_trans_reset (); o_res = o_list; o_nres = 0;
  if (!o_der[s][0][seqn]) return;
  o_trans_sym (s, 0, seqn);
  o_res = o_list + o_lstart[s][0][seqn]; o_nres = o_llen[s][0][seqn];
}

/* ---------------- number of derivations (capped) */
#define O_CAP 1000
static int o_cnt[G_MAXSYM][O_MAXN + 1][O_MAXN + 1]; static char o_cstate[G_MAXSYM][O_MAXN + 1][O_MAXN + 1];
static int o_count_sym (int s, int i, int j);
static int o_count_rule (const struct grule *R, int k, int i, int j)
{
  int m, tot = 0, s;
  if (k == R->n) return i == j;
  s = R->rhs[k];
  for (m = i; m <= j; m++)
    {
      int a, b;
      if (!o_symder (s, i, m) || !o_seqder (R, k + 1, m, j)) continue;
      a = G.sym[s].kind == SK_NT ? o_count_sym (s, i, m) : 1;
      b = o_count_rule (R, k + 1, m, j);
      tot += a * b; if (tot > O_CAP) tot = O_CAP;
    }
  return tot;
}
static int o_count_sym (int s, int i, int j)
{
  int r, tot = 0;
  if (o_cstate[s][i][j] == 2) return o_cnt[s][i][j];
  if (o_cstate[s][i][j] == 1) return O_CAP;
  o_cstate[s][i][j] = 1;
  for (r = 0; r < G.nrule; r++) if (G.rule[r].lhs == s) { tot += o_count_rule (&G.rule[r], 0, i, j); if (tot > O_CAP) tot = O_CAP; }
  o_cnt[s][i][j] = tot; o_cstate[s][i][j] = 2;
  return tot;
}
static int o_derivations (void)
{
  o_compute_derives (); memset (o_cstate, 0, sizeof o_cstate);
  if (!o_der[g_start ()][0][seqn]) return 0;
  return o_count_sym (g_start (), 0, seqn);
}
#endif
